#!/venv/bin/python
"""Confirms a sub-agent's seeded change in a scratch worktree of /repo HEAD and, if everything holds, keeps it as
/verif/seeded/<id>/ (patch.diff, demo.py, meta.json).  usage: keep_seed.py <dir with patch.diff demo.py meta.json> <id>
Confirmed: patch applies to HEAD; demo exits 0 on the clean tree and non-zero with the patch; the baseline test command
passes every stable_pass test of BASELINE.json with the patch."""
import json, os, shutil, subprocess, sys, tempfile
src, sid = sys.argv[1], sys.argv[2]
V = os.path.dirname(os.path.dirname(os.path.abspath(__file__)))
wt = tempfile.mkdtemp(prefix="keep-", dir="/dev/shm"); os.rmdir(wt)
subprocess.run(["git", "-C", "/repo", "worktree", "add", "-q", "--detach", wt, "HEAD"], check=True)
rec = {}
try:
    env = dict(os.environ, PYTHONPATH=wt + "/src", PATH="/venv/bin:" + os.environ["PATH"], SEMGREP_SEND_METRICS="off", SEMGREP_ENABLE_VERSION_CHECK="0")
    def demo():
        p = subprocess.run(["/venv/bin/python", os.path.join(src, "demo.py")], env=env, capture_output=True, text=True, cwd="/tmp", timeout=1800)
        return p.returncode, (p.stdout + p.stderr)[-400:]
    rec["demo_clean"] = demo()[0]
    a = subprocess.run(["git", "-C", wt, "apply", os.path.join(src, "patch.diff")], capture_output=True, text=True)
    rec["applies"] = a.returncode == 0
    if not rec["applies"]:
        print(sid, "PATCH DOES NOT APPLY", a.stderr[:300]); sys.exit(2)
    rc, tail = demo()
    rec["demo_patched"] = rc
    rec["demo_patched_tail"] = tail
    b = subprocess.run(["/venv/bin/python", os.path.join(V, "tools", "baseline_compare.py"), wt], capture_output=True, text=True)
    rec["baseline"] = b.stdout.strip().splitlines()[0] if b.stdout.strip() else b.stderr[-200:]
    rec["baseline_ok"] = b.returncode == 0
    ok = rec["demo_clean"] == 0 and rec["demo_patched"] != 0 and rec["baseline_ok"]
    print(sid, "KEEP" if ok else "REJECT", json.dumps(rec)[:600])
    if ok:
        d = os.path.join(V, "seeded", sid)
        os.makedirs(d, exist_ok=True)
        shutil.copy(os.path.join(src, "patch.diff"), d)
        shutil.copy(os.path.join(src, "demo.py"), d)
        meta = json.load(open(os.path.join(src, "meta.json")))
        meta["origin"] = "independent sub-agent given only the property text and a scratch worktree"
        meta["confirmed"] = {"repo_head": subprocess.run(["git", "-C", "/repo", "log", "--format=%h", "-1"], capture_output=True, text=True).stdout.strip(),
                             "demo_exit_clean": rec["demo_clean"], "demo_exit_patched": rec["demo_patched"], "baseline_suite_with_patch": rec["baseline"]}
        json.dump(meta, open(os.path.join(d, "meta.json"), "w"), indent=1)
finally:
    subprocess.run(["git", "-C", "/repo", "worktree", "remove", "--force", wt])
    shutil.rmtree(wt, ignore_errors=True)
