"""Writes /verif/corpus/manifests.jsonl: the fixed manifest corpus (DESIGN.md 3.3).  Provenance tool,
not run by checks."""
import json, os, sys
sys.path.insert(0, os.path.dirname(os.path.dirname(os.path.abspath(__file__))))
from simbox.util import enc

M = []
def add(name, file, text, **tags):
    M.append({"name": name, "file": file, "content": enc(text.encode("utf-8") if isinstance(text, str) else text), "tags": tags})

# ---- requirements.txt
add("req-plain", "requirements.txt", "requests==2.31.0\nblack==23.7.*\n")
add("req-comments", "requirements.txt", "# comment\nrequests==2.31.0  # inline\n\nmypy~=1.4\n")
add("req-no-final-nl", "requirements.txt", "requests==2.31.0\npylint>1")
add("req-crlf", "requirements.txt", "requests==2.31.0\r\nblack==23.7.*\r\n", crlf=True)
add("req-markers-extras", "requirements.txt", 'requests[security]>=2.0; python_version<"3.8"\nimportlib-metadata; python_version<"3.8"\n')
add("req-r-include", "requirements.txt", "-r more.txt\nrequests\n")
add("req-hashes", "requirements.txt", "requests==2.31.0 \\\n    --hash=sha256:aaaa\n")
add("req-empty", "requirements.txt", "", empty=True)
add("req-only-comment", "requirements.txt", "# nothing here\n")
add("req-unparsable-bytes", "requirements.txt", b"\xf0\x28\x8c\xbc\n", unparsable=True)
add("req-has-security", "requirements.txt", "security==1.0.0\nrequests\n", present=["security"])
add("req-has-defusedxml-other-version", "requirements.txt", "defusedxml>=0.6\n", present=["defusedxml"])
add("req-has-Fickling-case", "requirements.txt", "Fickling==0.1.3\n", present_spelling=["fickling"])
add("req-has-flask_wtf-underscore", "requirements.txt", "flask_wtf==1.2.1\nFlask\n", present_spelling=["flask-wtf"])
add("req-has-Security-case", "requirements.txt", "Security==1.3.1\n", present_spelling=["security"])
add("req-has-DefusedXML-case", "requirements.txt", "DefusedXML==0.7.1\n", present_spelling=["defusedxml"])
add("req-blank-lines-end", "requirements.txt", "requests\n\n\n")
add("req-utf8-bom", "requirements.txt", "﻿requests==2.31.0\n")
# ---- pyproject.toml
add("pyproject-project-deps", "pyproject.toml", '[project]\nname = "x"\nversion = "0.1"\ndependencies = [\n    "requests>=2",\n    "black",\n]\n')
add("pyproject-inline-deps", "pyproject.toml", '[project]\nname = "x"\ndependencies = ["requests>=2"]\n')
add("pyproject-empty-deps", "pyproject.toml", '[project]\nname = "x"\ndependencies = []\n')
add("pyproject-no-deps-key", "pyproject.toml", '[project]\nname = "x"\nversion = "1"\n', no_deps=True)
add("pyproject-comments", "pyproject.toml", '# top\n[project]\nname = "x" # n\ndependencies = [\n  "requests", # why\n]\n\n[tool.black]\nline-length = 88\n')
add("pyproject-poetry", "pyproject.toml", '[tool.poetry]\nname = "x"\nversion = "0.1.0"\n\n[tool.poetry.dependencies]\npython = "^3.10"\nrequests = "^2.0"\n\n[tool.poetry.dev-dependencies]\nmypy = "^1.0"\n')
add("pyproject-poetry-no-deps", "pyproject.toml", '[tool.poetry]\nname = "x"\nversion = "0.1.0"\n')
add("pyproject-poetry-typing-group", "pyproject.toml", '[tool.poetry]\nname = "x"\n\n[tool.poetry.dependencies]\npython = "^3.10"\n\n[tool.poetry.group.test.dependencies]\nmypy = "*"\n')
add("pyproject-crlf", "pyproject.toml", '[project]\r\nname = "x"\r\ndependencies = [\r\n    "requests",\r\n]\r\n', crlf=True)
add("pyproject-only-tool", "pyproject.toml", '[tool.black]\nline-length = 88\n', no_deps=True)
add("pyproject-unparsable", "pyproject.toml", '[project\nname = \n', unparsable=True)
add("pyproject-has-security", "pyproject.toml", '[project]\nname = "x"\ndependencies = [\n    "security>=1.0",\n]\n', present=["security"])
add("pyproject-has-Defusedxml-case", "pyproject.toml", '[project]\nname = "x"\ndependencies = [\n    "Defusedxml",\n]\n', present_spelling=["defusedxml"])
add("pyproject-no-final-nl", "pyproject.toml", '[project]\nname = "x"\ndependencies = ["requests"]')
# ---- setup.py
add("setuppy-multi", "setup.py", 'from setuptools import setup\n\nsetup(\n    name="x",\n    install_requires=[\n        "requests>=2",\n        "black",\n    ],\n)\n')
add("setuppy-inline", "setup.py", 'from setuptools import setup\nsetup(name="x", install_requires=["requests", "black"])\n')
add("setuppy-single", "setup.py", 'from setuptools import setup\nsetup(name="x", install_requires=["requests"])\n')
add("setuppy-single-multiline", "setup.py", 'from setuptools import setup\nsetup(\n    name="x",\n    install_requires=[\n        "requests"\n    ],\n)\n')
add("setuppy-empty-list", "setup.py", 'from setuptools import setup\nsetup(name="x", install_requires=[])\n', no_deps=True)
add("setuppy-no-install-requires", "setup.py", 'from setuptools import setup\nsetup(name="x")\n', no_deps=True)
add("setuppy-variable", "setup.py", 'from setuptools import setup\nreqs = ["requests"]\nsetup(name="x", install_requires=reqs)\n', no_deps=True)
add("setuppy-import-setuptools", "setup.py", 'import setuptools\nsetuptools.setup(name="x", install_requires=["requests"])\n')
add("setuppy-crlf", "setup.py", 'from setuptools import setup\r\nsetup(name="x", install_requires=["requests"])\r\n', crlf=True)
add("setuppy-syntax-error", "setup.py", 'from setuptools import setup\nsetup(name="x", install_requires=[\n', unparsable=True)
add("setuppy-has-security", "setup.py", 'from setuptools import setup\nsetup(name="x", install_requires=["security==1.3.1", "requests"])\n', present=["security"])
add("setuppy-comments", "setup.py", '# hdr\nfrom setuptools import setup\nsetup(\n    name="x",  # name\n    install_requires=[\n        "requests",  # http\n        # trailing comment\n    ],\n)\n')
# ---- setup.cfg
add("setupcfg-multiline", "setup.cfg", '[metadata]\nname = x\n\n[options]\npython_requires = >=3.7\ninstall_requires =\n    requests\n    importlib-metadata; python_version<"3.8"\n\n[options.extras_require]\ndev = black\n')
add("setupcfg-inline", "setup.cfg", '[metadata]\nname = x\n\n[options]\ninstall_requires = requests, black\n')
add("setupcfg-inline-single", "setup.cfg", '[options]\ninstall_requires = requests\n')
add("setupcfg-no-options", "setup.cfg", '[metadata]\nname = x\n', no_deps=True)
add("setupcfg-no-install-requires", "setup.cfg", '[options]\npython_requires = >=3.7\n', no_deps=True)
add("setupcfg-comments", "setup.cfg", '# c\n[options]\n# about deps\ninstall_requires =\n    requests  \n    # commented\n    black\n')
add("setupcfg-crlf", "setup.cfg", '[options]\r\ninstall_requires =\r\n    requests\r\n    black\r\n', crlf=True)
add("setupcfg-unparsable", "setup.cfg", 'no section header\nx = 1\n', unparsable=True)
add("setupcfg-has-security", "setup.cfg", '[options]\ninstall_requires =\n    security>=1\n    requests\n', present=["security"])
add("setupcfg-dup-last-line", "setup.cfg", '[metadata]\nname = requests\nrequests\n[options]\ninstall_requires =\n    black\n    requests\n')
add("setupcfg-no-final-nl", "setup.cfg", '[options]\ninstall_requires =\n    requests\n    black')

# ---- appended later (indices above are referenced by fixed experiments: append only)
add("setupcfg-multiline-single", "setup.cfg", '[metadata]\nname = x\n\n[options]\ninstall_requires =\n    requests>=2.31\n\n[options.extras_require]\ndev = black\n')
add("setupcfg-multiline-single-marker", "setup.cfg", '[options]\ninstall_requires =\n  importlib-metadata; python_version<"3.8"\n')
add("pyproject-poetry-has-defusedxml-star", "pyproject.toml", '[tool.poetry]\nname = "x"\nversion = "0.1.0"\n\n[tool.poetry.dependencies]\npython = "^3.10"\ndefusedxml = "*"\n', present=["defusedxml"])
add("pyproject-poetry-has-security-tilde", "pyproject.toml", '[tool.poetry]\nname = "x"\n\n[tool.poetry.dependencies]\npython = "^3.10"\nsecurity = "~1.3"\n', present=["security"])
add("pyproject-poetry-has-fickling-table", "pyproject.toml", '[tool.poetry]\nname = "x"\n\n[tool.poetry.dependencies]\npython = "^3.10"\nfickling = {version = "*", optional = true}\n', present=["fickling"])
add("pyproject-poetry-has-security-bare", "pyproject.toml", '[tool.poetry]\nname = "x"\n\n[tool.poetry.dependencies]\npython = "^3.10"\nsecurity = "1.3.1"\n', present=["security"])

with open(os.path.join(os.path.dirname(os.path.dirname(os.path.abspath(__file__))), "corpus", "manifests.jsonl"), "w", encoding="utf-8") as f:
    for m in M:
        f.write(json.dumps(m, sort_keys=True) + "\n")
print(len(M))
