#!/bin/bash
# usage: with_mutant.sh <patch.diff|-e 'sed-expr' file> -- <command...>
# creates a scratch worktree of /repo HEAD under /dev/shm, applies the patch, runs the command with VERIF_REPO
# pointing at it, removes the worktree. Never touches /repo's working tree.
set -u
D=$(mktemp -d /dev/shm/mut-XXXXXX)
rmdir "$D"
git -C /repo worktree add -q --detach "$D" HEAD || exit 9
cleanup() { git -C /repo worktree remove --force "$D" >/dev/null 2>&1; rm -rf "$D"; }
trap cleanup EXIT
if [ "$1" = "-e" ]; then
  sed -i -e "$2" "$D/$3" || exit 9
  shift 3
else
  git -C "$D" apply "$1" || { echo "patch does not apply"; exit 9; }
  shift
fi
[ "$1" = "--" ] && shift
( cd "$D" && git diff --stat | tail -1 )
VERIF_REPO="$D" "$@"
