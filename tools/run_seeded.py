#!/venv/bin/python
"""Runs the registered checks against every kept seeded change (seeded/<id>/patch.diff) in a scratch worktree of /repo
(never in /repo itself) and prints which check caught which change.
usage: tools/run_seeded.py [id ...] [--checks C03,C04] [--tier quick] [--seed N]"""
import json, os, subprocess, sys, tempfile, shutil
V = os.path.dirname(os.path.dirname(os.path.abspath(__file__)))
args = sys.argv[1:]
checks_override = None
tier = "quick"
seed = None
ids = []
i = 0
while i < len(args):
    if args[i] == "--checks": checks_override = args[i + 1].split(","); i += 2
    elif args[i] == "--tier": tier = args[i + 1]; i += 2
    elif args[i] == "--seed": seed = args[i + 1]; i += 2
    else: ids.append(args[i]); i += 1
ids = ids or sorted(d for d in os.listdir(os.path.join(V, "seeded")) if os.path.exists(os.path.join(V, "seeded", d, "patch.diff")))
summary = {}
for sid in ids:
    d = os.path.join(V, "seeded", sid)
    meta = json.load(open(os.path.join(d, "meta.json")))
    checks = checks_override or meta.get("checks") or [meta["property"]]
    wt = tempfile.mkdtemp(prefix="seeded-", dir="/dev/shm"); os.rmdir(wt)
    subprocess.run(["git", "-C", "/repo", "worktree", "add", "-q", "--detach", wt, "HEAD"], check=True)
    try:
        r = subprocess.run(["git", "-C", wt, "apply", os.path.join(d, "patch.diff")], capture_output=True, text=True)
        if r.returncode != 0:
            print(f"{sid}: PATCH DOES NOT APPLY: {r.stderr.strip()[:200]}"); summary[sid] = "patch-fails"; continue
        res = {}
        for c in checks:
            env = dict(os.environ, VERIF_REPO=wt)
            if seed: env["VERIF_SEED"] = seed
            p = subprocess.run([os.path.join(V, "check"), c, "--tier", tier], env=env, capture_output=True, text=True, cwd=V)
            viol = [l for l in p.stdout.splitlines() if l.startswith("VIOLATION")]
            keys = [l.strip() for l in p.stdout.splitlines() if l.strip().startswith("clause=")]
            res[c] = {"rc": p.returncode, "violations": len(viol), "keys": keys[:3], "tail": p.stdout.strip().splitlines()[-1][:200] if p.stdout.strip() else p.stderr[-200:]}
            print(f"{sid}: {c} rc={p.returncode} violations={len(viol)} {keys[:2]}")
        summary[sid] = res
    finally:
        subprocess.run(["git", "-C", "/repo", "worktree", "remove", "--force", wt])
        shutil.rmtree(wt, ignore_errors=True)
json.dump(summary, open("/dev/shm/run_seeded_last.json", "w"), indent=1)
