#!/venv/bin/python
"""Appends hand-written snippets to /verif/corpus/snippets.jsonl (append-only, idempotent: an entry already present with
the same codemod and input is skipped, so indices referenced by fixed experiments never move).  Provenance tool, not run
by checks.  These inputs fill gaps of the harvested corpus that sub-agent seeds or their side remarks exposed
(DESIGN.md 10.5): shapes around already-fixed siblings, `**mapping` arguments, names already imported another way,
stacked decorators."""
import json, os

V = os.path.dirname(os.path.dirname(os.path.abspath(__file__)))
P = os.path.join(V, "corpus", "snippets.jsonl")
TEST = "hand-added round 5 (argument / import / decorator shapes the harvested corpus lacks)"

NEW = [
    ("pixee:python/disable-graphql-introspection",
     'from graphql_server.flask import GraphQLView\nfrom flask import Flask\nfrom .schemas import schema\n\napp = Flask(__name__)\nopts = {"graphiql": True}\n\n'
     'app.add_url_rule("/api", view_func=GraphQLView.as_view("api", schema=schema, **opts))\n'),
    ("pixee:python/disable-graphql-introspection",
     'from graphql_server.flask import GraphQLView\nfrom .schemas import schema\n\nextra = {}\nview = GraphQLView(\n    schema=schema,\n    **extra,\n)\n'),
    ("pixee:python/django-receiver-on-top",
     'from django.dispatch import receiver\nfrom django.views.decorators.csrf import csrf_exempt\nfrom django.core.signals import request_finished, request_started\n\n\n'
     '@csrf_exempt\n@receiver(request_finished)\n@receiver(request_started)\ndef foo():\n    pass\n'),
    ("pixee:python/django-receiver-on-top",
     'from django.dispatch import receiver\nfrom django.core.signals import request_finished, request_started\n\n\n'
     '@receiver(request_finished)\n@staticmethod\n@receiver(request_started)\ndef bar(sender, **kwargs):\n    pass\n'),
    ("pixee:python/flask-enable-csrf-protection",
     'from flask import Flask\nfrom flask_wtf import CSRFProtect\n\napp = Flask(__name__)\n'),
    ("pixee:python/flask-enable-csrf-protection",
     'import flask\n\napp = flask.Flask(__name__)\nother = flask.Flask("other")\n'),
    ("pixee:python/add-requests-timeouts",
     'import requests\n\nopts = {"verify": True}\nrequests.get("https://example.com", **opts)\nrequests.post(\n    "https://example.com",\n    data={},\n    **opts,\n)\n'),
    ("pixee:python/secure-random",
     'import random\nimport secrets\n\na = random.random()\nb = secrets.SystemRandom().random()\nc = random.choice([1, 2])\n'),
    ("pixee:python/harden-pyyaml",
     'import yaml\n\nkw = {}\ndata = yaml.load(open("f"), **kw)\nmore = yaml.load(open("g"), Loader=yaml.Loader)\n'),
    ("pixee:python/use-defusedxml",
     'from xml.etree.ElementTree import parse\nimport defusedxml.ElementTree\n\net = parse("x.xml")\nsafe = defusedxml.ElementTree.parse("y.xml")\n'),
    ("pixee:python/sandbox-process-creation",
     'import subprocess\nfrom security import safe_command\n\nsafe_command.run(subprocess.run, "ls")\nsubprocess.run(\n    "echo hi",\n    shell=True,\n)\nsubprocess.call(["ls", "-l"])\n'),
    ("pixee:python/url-sandbox",
     'import requests\nfrom security import safe_requests\n\nurl = input()\nsafe_requests.get(url)\nrequests.get(url)\n'),
    ("pixee:python/fix-mutable-params",
     'def f(a, b=[], *args, c={}, **kw):\n    return a, b, c\n\n\nclass K:\n    def m(self, x=[], y=None):\n        y = y or []\n        return x, y\n'),
    ("pixee:python/literal-or-new-object-identity",
     'def f(l):\n    return l is [1, 2, 3] or l is not {} or l is {1}\n'),
    # round 7: the construct nested inside itself / a name already imported another way
    ("pixee:python/use-set-literal", 'x = set([len(set([a, b])), 2])\n'),
    ("pixee:python/timezone-aware-datetime",
     'from datetime import datetime\n\n\ndef f():\n    return datetime.utcfromtimestamp(datetime.utcnow().timestamp())\n'),
    ("pixee:python/fix-async-task-instantiation",
     'import asyncio\n\n\nasync def main(c, wrap):\n    t = asyncio.Task(wrap(asyncio.Task(c())))\n    await t\n'),
    ("pixee:python/fix-assert-tuple", 'def test(a, b, c):\n    assert ((a, b), c)\n'),
    ("pixee:python/disable-graphql-introspection",
     'from graphql import NoSchemaIntrospectionCustomRule\nfrom graphql_server.flask import GraphQLView\nfrom .schemas import schema\n\n'
     'safe = GraphQLView(name="safe", schema=schema, validation_rules=[NoSchemaIntrospectionCustomRule])\nview = GraphQLView(name="api", schema=schema)\n'),
    ("pixee:python/use-defusedxml",
     'import xml.etree.ElementTree as ET\n\n\ndef f(p):\n    return ET.fromstring(ET.tostring(ET.parse(p).getroot()))\n'),
    ("pixee:python/harden-pickle-load",
     'import pickle\n\n\ndef f(f1):\n    return pickle.load(open(pickle.load(f1), "rb"))\n'),
    ("pixee:python/flask-json-response-type",
     'from flask import Flask\nimport json\n\napp = Flask(__name__)\n\n\n@app.route("/x")\ndef x(uid):\n    return json.dumps({"a": 1}), 200, {"X-Request-Id": uid}\n'),
    # round 9: the same construct twice in one file; a construct nested in its own kind
    ("pixee:python/exception-without-raise",
     'def check(a, b):\n    if a < 0:\n        ValueError("a must not be negative")\n    if b < 0:\n        ValueError("b must not be negative")\n    return a + b\n'),
    ("pixee:python/safe-lxml-parser-defaults",
     'import lxml.etree\n\nfirst = lxml.etree.XMLParser(resolve_entities=True)\nsecond = lxml.etree.XMLParser()\nthird = lxml.etree.XMLParser()\n'),
    ("pixee:python/remove-assertion-in-pytest-raises",
     'import pytest\n\n\ndef test_x():\n    with pytest.raises(ValueError):\n        with pytest.raises(KeyError):\n            foo()\n            assert 1\n'),
    ("pixee:python/use-walrus-if",
     'def f():\n    x = foo()\n    y = x\n    if y:\n        print("hi")\n'),
    ("pixee:python/fix-float-equality",
     'a = 1\nx = (a == 0.1) == 1.0\n'),
    ("pixee:python/remove-debug-breakpoint",
     'import pdb\n\n\ndef f():\n    breakpoint()\n    pdb.set_trace()\n    x = 1; breakpoint()\n    return x\n'),
]

rows = [json.loads(l) for l in open(P, encoding="utf-8")]
have = {(r["codemod"], r["input"]) for r in rows}
added = 0
with open(P, "a", encoding="utf-8") as f:
    for cid, src in NEW:
        if (cid, src) in have:
            continue
        f.write(json.dumps({"codemod": cid, "expect_change": True, "input": src, "relpath": "code.py", "results": "", "siblings": {},
                            "test": TEST, "tool": None}, sort_keys=True) + "\n")
        added += 1
print("added", added, "total", len(rows) + added)
