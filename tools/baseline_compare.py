"""Runs the repository's baseline test command and checks every stable_pass test of
/root/.vp/BASELINE.json still passes. Usage: baseline_compare.py [repo]"""
import json, subprocess, sys, xml.etree.ElementTree as ET, os, tempfile
repo = sys.argv[1] if len(sys.argv) > 1 else "/repo"
base = json.load(open("/root/.vp/BASELINE.json"))
out = tempfile.mktemp(suffix=".xml", dir="/dev/shm")
cmd = f"cd {repo} && /venv/bin/python -m pytest -ra -q -p no:cacheprovider --timeout=900 --continue-on-collection-errors --junitxml={out} -x -q >/dev/null 2>&1"
cmd = cmd.replace(" -x -q", "")
subprocess.run(cmd, shell=True)
passed = set()
for tc in ET.parse(out).getroot().iter("testcase"):
    if not any(ch.tag in ("failure", "error", "skipped") for ch in tc):
        passed.add(f"{tc.get('classname')}::{tc.get('name')}")
os.unlink(out)
want = set(base["stable_pass"])
missing = sorted(want - passed)
print(f"stable_pass={len(want)} passed_now={len(passed)} missing={len(missing)}")
for m in missing[:20]:
    print("  MISSING", m)
sys.exit(1 if missing else 0)
