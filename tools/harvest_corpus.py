"""One-off provenance tool (NOT run by checks): harvests the snippet corpus from the
repository's own unit tests by recording every call of run_and_assert.

Usage:
  cd /repo && HARVEST_OUT=/verif/corpus/snippets.jsonl /venv/bin/python -m pytest tests/codemods \
      -p no:cacheprovider -p no:randomly -q -p harvest_corpus   (with /verif/tools on PYTHONPATH)

Each record: {codemod, tool, input, expect_change, results, relpath, siblings:{relpath:content}}
No expected output text is kept: oracles never depend on it.
"""
import json
import os
from pathlib import Path
from textwrap import dedent

_OUT = os.environ.get("HARVEST_OUT", "/tmp/snippets.jsonl")
_seen = set()
_fh = None


def _record(self, tmpdir, input_code, expected, root, files, results):
    global _fh
    try:
        root = Path(root or tmpdir)
        target = Path(files[0]) if files else root / f"code.{self.file_extension}"
        rel = os.path.relpath(target, root)
        siblings = {}
        for p in sorted(root.rglob("*")):
            if p.is_file() and p != target and p.name != "sast_results":
                try:
                    siblings[os.path.relpath(p, root)] = p.read_text()
                except Exception:
                    pass
        cm = self.codemod
        cid = cm.id if not isinstance(cm, type) else cm().id
        rec = {
            "codemod": cid,
            "tool": getattr(self, "tool", None) if isinstance(getattr(self, "tool", None), str) else None,
            "input": dedent(input_code),
            "expect_change": dedent(input_code) != dedent(expected),
            "results": results or "",
            "relpath": rel,
            "siblings": siblings,
            "test": os.environ.get("PYTEST_CURRENT_TEST", "").split(" ")[0],
        }
        key = json.dumps([rec[k] for k in ("codemod", "input", "results", "relpath")], sort_keys=True)
        if key in _seen:
            return
        _seen.add(key)
        if _fh is None:
            _fh = open(_OUT, "w", encoding="utf-8")
        _fh.write(json.dumps(rec, sort_keys=True) + "\n")
        _fh.flush()
    except Exception as e:  # never break the test run
        print("harvest error", e)


def pytest_configure(config):
    from codemodder.codemods.test import utils

    orig_base = utils.BaseCodemodTest.run_and_assert
    orig_sast = utils.BaseSASTCodemodTest.run_and_assert

    def base(self, tmpdir, input_code, expected, num_changes=1, min_num_changes=None,
             root=None, files=None, lines_to_exclude=None):
        if not lines_to_exclude:
            _record(self, tmpdir, input_code, expected, root, files, "")
        return orig_base(self, tmpdir, input_code, expected, num_changes, min_num_changes,
                         root, files, lines_to_exclude)

    def sast(self, tmpdir, input_code, expected, num_changes=1, min_num_changes=None,
             root=None, files=None, lines_to_exclude=None, results=""):
        if not lines_to_exclude:
            _record(self, tmpdir, input_code, expected, root, files, results)
        return orig_sast(self, tmpdir, input_code, expected, num_changes, min_num_changes,
                         root, files, lines_to_exclude, results)

    utils.BaseCodemodTest.run_and_assert = base
    utils.BaseSASTCodemodTest.run_and_assert = sast
