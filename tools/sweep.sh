#!/bin/bash
# usage: tools/sweep.sh "<seeds>" "<checks>" [tier]   - runs the checks for several VERIF_SEED values, prints VIOLATION / summary lines
SEEDS=${1:-"1 2 3"}; CHECKS=${2:-"C03 C04 C05 C07 C09 C10 C11 C12 C14 C15 C20"}; TIER=${3:-quick}
./check setup >/dev/null 2>&1
for s in $SEEDS; do
  for c in $CHECKS; do
    out=$(VERIF_SEED=$s ./check $c --tier $TIER 2>&1)
    rc=$?
    echo "== seed=$s $c rc=$rc $(echo "$out" | tail -1)"
    echo "$out" | grep -A2 "^VIOLATION\|HARNESS" | cut -c1-900
  done
done
