"""Provenance tool: writes corpus/codemods.json (id, origin, detector kind, rules) from the registry."""
import json, sys
sys.path.insert(0, "/repo/src")
from codemodder.registry import load_registered_codemods, DEFAULT_EXCLUDED_CODEMODS
from codemodder.codemods.semgrep import SemgrepRuleDetector
reg = load_registered_codemods()
out = []
for c in sorted(reg.codemods, key=lambda c: c.id):
    d = c.detector
    kind = "none" if d is None else ("semgrep-rule" if isinstance(d, SemgrepRuleDetector) else type(d).__name__)
    out.append({"id": c.id, "origin": c.origin, "name": c.name, "detector": kind,
                "rules": getattr(c, "requested_rules", None),
                "tool": c._metadata.tool.name if c._metadata.tool else None,
                "transformer": type(c.transformer).__name__,
                "default_excluded": c.id in DEFAULT_EXCLUDED_CODEMODS,
                "extensions": c.default_extensions})
json.dump(out, open("/verif/corpus/codemods.json", "w"), indent=1)
print(len(out))
