#!/bin/bash
# Runs the repository's whole unit-test suite WITH semgrep on PATH (the baseline cannot) at the pinned commit
# and on /repo's working tree, and prints tests that passed before and do not pass now.
BASE=${1:-245fc22}
D=$(mktemp -d /dev/shm/fs-XXXXXX); rmdir $D
git -C /repo worktree add -q --detach $D $BASE
export PATH=/venv/bin:$PATH SEMGREP_SEND_METRICS=off SEMGREP_ENABLE_VERSION_CHECK=0
( cd $D && PYTHONPATH=$D/src /venv/bin/python -m pytest -q -p no:cacheprovider -p no:randomly --timeout=900 --junitxml=/dev/shm/fs-base.xml tests >/dev/null 2>&1 ) &
( cd /repo && /venv/bin/python -m pytest -q -p no:cacheprovider -p no:randomly --timeout=900 --junitxml=/dev/shm/fs-now.xml tests >/dev/null 2>&1 ) &
wait
git -C /repo worktree remove --force $D
/venv/bin/python - <<'PY'
import xml.etree.ElementTree as ET
def passed(p):
    s=set()
    for tc in ET.parse(p).getroot().iter("testcase"):
        if not any(ch.tag in ("failure","error","skipped") for ch in tc): s.add(f"{tc.get('classname')}::{tc.get('name')}")
    return s
a=passed('/dev/shm/fs-base.xml'); b=passed('/dev/shm/fs-now.xml')
print(f"passed at base={len(a)} now={len(b)} lost={len(a-b)} gained={len(b-a)}")
for t in sorted(a-b)[:30]: print("  LOST", t)
PY
