"""C15 - the CodeTF report is always well-formed, complete and internally consistent.
A universal monitor: a seeded mix of the execution kinds of all other checks (fault-free,
faulted, SAST, dependency-adding, dry, multi-codemod, plugin pipelines, non-ASCII) plus the
corner runs; the oracle relates every report to the run that produced it (observed execution
order from the progress markers, write log, tree)."""
import copy

from checks.c10 import CONTENT_FAULTS, corrupt
from simbox import gen as G
from simbox import world as W
from simbox.codetf_check import check_report
from simbox.framework import Check
from simbox.util import dec, enc


class C15(Check):
    id = "C15"
    level = "exploration"
    rule = ("experiment = one execution drawn from the kinds used by the other checks: find-and-fix / SAST / plugin / mixed codemod "
            "lists over generated projects (all layout variants incl. non-ASCII, manifests), optionally --dry-run, optionally with "
            "content faults (undecodable / unparsable files) or seam faults (vanish, read errors, transformer raising), random schedule "
            "and workers; plus fixed corner runs (no codemod matched, empty directory, every file failed, zero files selected, "
            "unknown ids, default set); oracle on every execution with status 0: vendored CodeTF schema + one result per executed "
            "codemod in observed execution order + changeset/changes/lineNumber/failed-vs-changed/SAST identifiers invariants; "
            "non-trivial = report holds at least one changeset or one failed file; distinct = by experiment digest")
    assumptions = [
        "schema = hand transcription of the public CodeTF v2 schema restricted to what C15 states (no copy on disk, no network)",
        "'line number inside the file' accepts either the image before or after that codemod",
        "execution order observed from the documented progress line `running codemod <id>`",
    ]
    budgets = {"quick": {"n": 110, "wall": 170}, "thorough": {"n": 1500, "wall": 1500}}

    def extra_batches(self, tier):
        base = {"plugins": False, "path_include": None, "extra_findings": {}, "dry": False, "content_faults": [], "seam_faults": [],
                "sched": {"seed": 0, "policy": "fifo", "line_p": 0.0}, "workers": None}
        f1 = {"path": "pkg/a.py", "raw": {"t": "def f(x=[]):\n    return f'hello'\n"}}
        f2 = {"path": "pkg/b.py", "raw": {"t": "import os\nprint(f'abc')\n"}}
        inc = ["pixee:python/remove-unnecessary-f-str", "pixee:python/fix-mutable-params"]
        exps = [
            dict(base, kind="corner:no-codemod-matched", include=["pixee:python/does-not-exist"], world_spec={"files": [f1, f2]}),
            dict(base, kind="corner:unknown-and-known", include=["nope:python/x", inc[0]], world_spec={"files": [f1, f2]}),
            dict(base, kind="corner:empty-directory", include=inc, world_spec={"files": []}),
            dict(base, kind="corner:zero-files-selected", include=inc, world_spec={"files": [f1, f2]}, path_include="nomatch/**"),
            dict(base, kind="corner:every-file-failed", include=inc,
                 world_spec={"files": [{"path": "pkg/a.py", "raw": {"b": "ZGVmIGYoOgo="}}, {"path": "pkg/b.py", "raw": {"b": "/w=="}}]}),
            dict(base, kind="corner:only-neutral", include=inc, world_spec={"files": [{"path": "a.py", "raw": {"t": "x = 1\n"}}]}),
            dict(base, kind="corner:dry-run", include=inc, world_spec={"files": [f1, f2]}, dry=True),
            dict(base, kind="corner:default-set", include=None, world_spec={"files": [f1, f2, {"path": "requirements.txt", "manifest": 0}]}),
            dict(base, kind="corner:default-exclude-list", include=None, exclude=["pixee:python/secure-random"], world_spec={"files": [f1, f2]}),
            dict(base, kind="corner:wildcard", include=["pixee:python/fix-*"], world_spec={"files": [f1, f2]}),
        ]
        # every SAST codemod of each origin once, with one finding each (identifiers / detection tool per registered codemod)
        for origin in ("sonar", "semgrep", "defectdojo"):
            cids, files = [], []
            for cid in G.ids(origin=origin):
                r = next((x for x in W.triggering(cid) if G.is_plain_snippet(x)), None)
                if r is not None:
                    cids.append(cid)
                    files.append({"path": f"pkg/{origin}_{len(files)}.py", "snippets": [r["idx"]], "layout": {}})
            exps.append(dict(base, kind="corner:sast-registry-walk", include=cids, world_spec={"files": files}))
        exps += [
            # a transformer that alters code without registering a change of its own (order-imports dropping a repeated from-import)
            dict(base, kind="corner:silent-rewrite", include=["pixee:python/order-imports"],
                 world_spec={"files": [{"path": "pkg/redundant.py", "raw": {"t": "from os import path, sep\nfrom os import path\n\nprint(path, sep)\n"}},
                                       {"path": "pkg/unordered.py", "raw": {"t": "import sys\nimport os\n\nprint(os, sys)\n"}}]}),
            # overlapping selections: a codemod matched by two patterns is one executed codemod
            dict(base, kind="corner:overlapping-patterns", include=["pixee:python/fix-*", "pixee:python/fix-mutable-params"], world_spec={"files": [f1, f2]}),
            dict(base, kind="corner:overlapping-patterns", include=["pixee:python/remove-unnecessary-f-str", "pixee:python/remove-*"], world_spec={"files": [f1, f2]}),
            dict(base, kind="corner:overlapping-patterns", include=["*:python/fix-mutable-params", "pixee:python/*-params"], world_spec={"files": [f1, f2]}),
            # one fixed experiment per listed known finding
            dict(base, kind="fixed:assert-tuple-last-statement", include=["pixee:python/fix-assert-tuple"],
                 world_spec={"files": [{"path": "pkg/t.py", "raw": {"t": 'def f():\n    assert (1,)\n\n    assert ("one", Exception, [])\n'}}]}),
            dict(base, kind="fixed:source-write-fails", include=inc, world_spec={"files": [f1, f2]},
                 seam_faults=[{"kind": "write-eacces", "file": "pkg/a.py", "codemod_index": 0, "nth": 0}]),
            dict(base, kind="fixed:pytest-raises-finding-line", include=["sonar:python/remove-assertion-in-pytest-raises"],
                 world_spec={"files": [{"path": "pkg/t.py", "snippets": [next(r["idx"] for r in W.triggering("sonar:python/remove-assertion-in-pytest-raises") if G.is_plain_snippet(r))], "layout": {}}]}),
            dict(base, kind="fixed:poetry-no-deps", include=["pixee:python/url-sandbox"],
                 world_spec={"files": [{"path": "pkg/a.py", "snippets": [G.pick_snippet(__import__("random").Random(1), "pixee:python/url-sandbox")["idx"]], "layout": {}},
                                       {"path": "pyproject.toml", "manifest": next(m["idx"] for m in W.manifests() if m["name"] == "pyproject-poetry-no-deps")}]}),
        ]
        return exps

    def gen(self, rng, i, tier):
        exp = G.gen_general(rng, max_codemods=5, exotic=rng.random() < 0.1)
        if not exp["include"]:
            return None
        exp["dry"] = rng.random() < 0.2
        exp["content_faults"] = []
        exp["seam_faults"] = []
        r = rng.random()
        pys = [f["path"] for f in exp["world_spec"]["files"] if "snippets" in f]
        if r < 0.25 and pys:
            for _ in range(rng.randint(1, 2)):
                exp["content_faults"].append({"kind": rng.choice(CONTENT_FAULTS), "donor": rng.choice(pys), "name": f"bad{rng.randrange(99)}.py"})
        elif r < 0.45 and pys:
            # "write-eacces": the write-back of a rewritten source fails. On the pinned tree that aborts the run (exit != 0,
            # C15 is then silent); a tree that swallows the error must still produce a consistent report
            fk = rng.choice(["vanish-before-read", "read-eio", "read-eacces", "transform-raise", "node-raise", "write-eacces", "write-eacces"])
            exp["seam_faults"].append({"kind": fk, "file": rng.choice(pys), "codemod_index": rng.randrange(len(exp["include"])),
                                       "nth": 1 if fk != "node-raise" else rng.choice([1, 5, 20])})
        exp["sched"] = G.rand_sched(rng, len(exp["world_spec"]["files"]))
        exp["workers"] = rng.choice([None, 1, 2, 4, 8])
        exp["kind"] = exp["kind"] + (":dry" if exp["dry"] else "") + (":content-fault" if exp["content_faults"] else "") + (":seam-fault" if exp["seam_faults"] else "")
        return exp

    def execute(self, exp, ctx):
        world, meta = W.build_world(exp["world_spec"])
        for cf in exp.get("content_faults", []):
            d = cf["donor"]
            name = (d.rsplit("/", 1)[0] + "/" if "/" in d else "") + cf["name"]
            world["files"][name] = enc(corrupt(cf["kind"], dec(world["files"][d])))
            ctx.note_fault(cf["kind"])
        plan = []
        for sf in exp.get("seam_faults", []):
            op = {"vanish-before-read": "open-read", "read-eio": "open-read", "read-eacces": "open-read",
                  "transform-raise": "transform", "node-raise": "node", "write-eacces": "open-write"}[sf["kind"]]
            kind = "open-eacces" if sf["kind"] == "write-eacces" else sf["kind"]
            plan.append({"op": op, "path": "<T>/" + sf["file"], "codemod_index": sf["codemod_index"] if sf["kind"] != "write-eacces" else None,
                         "nth": sf["nth"] if sf["kind"] != "write-eacces" else 0, "kind": kind})
        if exp.get("include") is None:
            results, ropts = W.default_delivery(meta)
            argv = ["<T>", "--output", "<O>/report.codetf"] + ropts
            if exp.get("exclude"):
                argv += ["--codemod-exclude", ",".join(exp["exclude"])]
        else:
            argv, results = G.general_argv(exp, meta, dry_run=exp.get("dry", False), workers=exp.get("workers"))
        if exp.get("path_include") and "--path-include" not in argv:
            argv += ["--path-include", exp["path_include"]]
        o = ctx.run({"name": "run", "world": dict(world, results=results), "argv": argv, "hashseed": 0, "sched": exp["sched"],
                     "enum_seed": None, "plugins": exp.get("plugins", False), "faults": plan})
        return {"run": o, "files": world["files"]}

    def oracle(self, exp, outcomes):
        o = outcomes["run"]
        if o["status"] != 0 or o["exception"]:
            return []  # C15 speaks about completed runs (C10 / C20 decide the rest)
        vanished = {s["file"] for s in exp.get("seam_faults", []) if s["kind"] == "vanish-before-read"}
        probs = [p for p in check_report(o, outcomes["files"], dry_run=exp.get("dry", False))
                 if not (p[0] == "changeset-path-missing" and p[1].get("path") in vanished)]
        v = []
        seen = set()
        for clause, detail in probs:
            cid = detail.get("codemod", "")
            what = cid or exp["kind"].split(":")[0]
            if clause == "line-number-outside-file":
                for f in exp["world_spec"]["files"]:
                    if f["path"] == detail.get("path") and "manifest" in f:
                        what = "manifest:" + W.manifests()[f["manifest"]]["name"]
            key = f"C15:{clause}:{what}"
            if key not in seen:
                seen.add(key)
                v.append({"clause": clause, "key": key, "detail": dict(detail, kind=exp["kind"], include=exp.get("include"))})
        return v

    def nontrivial(self, exp, outcomes):
        r = outcomes["run"]["report"]
        return bool(r) and any(x.get("changeset") or x.get("failedFiles") for x in r.get("results", []))

    def shrink(self, exp):
        inc = exp.get("include") or []
        if len(inc) > 1:
            for j in range(len(inc)):
                c = copy.deepcopy(exp)
                del c["include"][j]
                yield c
        fs = exp["world_spec"]["files"]
        if len(fs) > 1:
            donors = {cf["donor"] for cf in exp.get("content_faults", [])} | {sf["file"] for sf in exp.get("seam_faults", [])}
            for j in range(len(fs)):
                if fs[j]["path"] in donors:
                    continue
                c = copy.deepcopy(exp)
                del c["world_spec"]["files"][j]
                yield c
        for key in ("content_faults", "seam_faults"):
            for j in range(len(exp.get(key, []))):
                c = copy.deepcopy(exp)
                del c[key][j]
                yield c
        for j, f in enumerate(fs):
            if f.get("layout"):
                c = copy.deepcopy(exp)
                c["world_spec"]["files"][j]["layout"] = {}
                yield c

    def sample(self, exp, outcomes):
        r = outcomes["run"]["report"] or {}
        return {"kind": exp["kind"], "include": exp.get("include"), "dry": exp.get("dry"), "content_faults": exp.get("content_faults"),
                "seam_faults": exp.get("seam_faults"),
                "results": [{"codemod": x.get("codemod"), "changeset": [c.get("path") for c in x.get("changeset", [])], "failedFiles": x.get("failedFiles")}
                            for x in r.get("results", [])][:6]}


CHECK = C15()
