"""C11 - results do not depend on scheduling, worker count, hash seed, enumeration/creation order
or sibling files; no more than --max-workers files in flight."""
import copy

from simbox import gen as G
from simbox import world as W
from simbox.framework import Check
from simbox.normalize import outcome_key, results_by_codemod
from simbox.util import jdigest

FF_POOL = None


def ff_pool():
    global FF_POOL
    if FF_POOL is None:
        FF_POOL = [c for c in G.ids(origin="pixee") if c not in W.SIBLING_DEPENDENT
                   and any(G.is_plain_snippet(r) for r in W.triggering(c))]
    return FF_POOL


def sast_pool():
    return [c for c in G.ids() if G.info(c)["origin"] != "pixee" and any(G.is_plain_snippet(r) for r in W.triggering(c))]


def build_argv(exp, meta, workers):
    argv = ["<T>", "--output", "<O>/report.codetf"]
    if exp.get("include"):
        argv += ["--codemod-include", ",".join(exp["include"])]
    results, ropts = W.default_delivery(meta)
    argv += ropts
    if workers is not None:
        argv += ["--max-workers", str(workers)]
    argv += exp.get("extra_argv", [])
    return argv, results


class C11(Check):
    id = "C11"
    level = "exploration"
    rule = ("experiment = generated project (2-12 files from the harvested snippet corpus under layout variants) x codemod "
            "selection (find-and-fix lists, SAST default mode, wildcards spanning collections) x a perturbation class of "
            "5-9 executions varying schedule seed/policy/line-level pre-emption, --max-workers, PYTHONHASHSEED, directory "
            "enumeration permutation, file creation order, heap shift, plus the one-file sub-world for sibling independence; "
            "non-trivial = at least one file changed in the reference execution and at least two executions compared; "
            "distinct = by experiment digest")
    assumptions = [
        "SimThreadPool is faithful to the documented ThreadPoolExecutor contract (selftest compares against the real executor)",
        "semgrep results are a function of (rule text, file bytes) for explicit targets (memoisation)",
        "heap-layout dependence is perturbed only crudely (ASLR off, seeded pre-allocation)",
    ]
    budgets = {"quick": {"n": 36, "wall": 170}, "thorough": {"n": 1700, "wall": 2400}}

    def extra_batches(self, tier):
        """fixed experiment: aliases of one imported name (set of pairs sorted by name only was hash-seed dependent)"""
        base = {"sched": {"seed": 0, "policy": "fifo", "line_p": 0.0}, "enum_seed": None, "heap_shift": 0, "workers": None, "order_seed": None}
        exps = [{"kind": "fixed:import-aliases", "world_spec": {"files": [{"path": "deep/er/and/deeper/views.py", "snippets": [757, 763], "layout": {}}]},
                 "include": ["pixee:python/order-imports"],
                 "perturbations": [dict(base, hashseed=h) for h in (0, 1, 2, 3, 5)]}]
        # several dependency manifests of ONE kind in different directories: which one takes the new requirement must not
        # follow the order in which the directory happens to be enumerated
        import random

        names = {m["name"]: m for m in W.manifests()}
        for k, (mn, cid, dirs) in enumerate([("req-plain", "pixee:python/use-defusedxml", ["a", "b"]), ("req-comments", "pixee:python/url-sandbox", ["", "deploy", "zz/sub"]),
                                             ("setupcfg-multiline", "pixee:python/harden-pickle-load", ["svc1", "svc2", "lib/x"]),
                                             ("pyproject-project-deps", "pixee:python/url-sandbox", ["one", "two"])]):
            r = G.pick_snippet(random.Random(f"c11-stores-{k}"), cid)
            files = [{"path": "app.py", "snippets": [r["idx"]], "layout": {}}]
            files += [{"path": (d + "/" if d else "") + names[mn]["file"], "manifest": names[mn]["idx"]} for d in dirs]
            exps.append({"kind": "fixed:same-kind-manifests", "world_spec": {"files": files}, "include": [cid],
                         "perturbations": [dict(base, hashseed=0)] + [dict(base, hashseed=0, enum_seed=e, order_seed=e) for e in (1, 2, 3, 5, 8, 13)]})
        return exps

    def gen(self, rng, i, tier):
        if tier == "thorough" and i < len(W.snippets()):
            # walk the whole corpus: every trigger snippet alone under three hash seeds and two heap shifts
            r = W.snippets()[i]
            if not r["expect_change"]:
                return None
            path = G.rand_path(rng, set()) if G.is_plain_snippet(r) else "proj/" + r["relpath"]
            base = {"sched": {"seed": 0, "policy": "fifo", "line_p": 0.0}, "enum_seed": None, "workers": None, "order_seed": None}
            perts = [dict(base, hashseed=0, heap_shift=0), dict(base, hashseed=1 + i % 7, heap_shift=1000),
                     dict(base, hashseed=11 + i % 5, heap_shift=12345)]
            return {"kind": "corpus-walk", "world_spec": {"files": [{"path": path, "snippets": [r["idx"]], "layout": {}}]},
                    "include": [r["codemod"]], "perturbations": perts}
        used = set()
        r = rng.random()
        files = []
        import os

        if os.environ.get("C11_FORCE_KIND") == "ff-any":  # for sensitivity experiments only
            r = 0.0
        if r < 0.2:
            # any find-and-fix codemod of the registry (incl. dependency-adding ones and multi-snippet files where a name
            # has several bindings): no sibling sub-world, perturbations biased to heap layout and hash seed
            g = G.gen_general(rng, kinds=("ff", "ff", "ff-dep"), max_codemods=3)
            # several snippets of ONE codemod in one file: names with several bindings / repeated imports
            for cid in g["include"][:2]:
                f = G.gen_py_file(rng, used, [cid], n_snip=(2, 3), rich=False)
                if f:
                    g["world_spec"]["files"].append(f)
            if not g["world_spec"]["files"]:
                return None
            perts = [{"hashseed": 0, "sched": {"seed": 0, "policy": "fifo", "line_p": 0.0}, "enum_seed": None, "heap_shift": 0,
                      "workers": None, "order_seed": None}]
            for j in range(rng.randint(4, 6)):
                perts.append({"hashseed": [0, 1, 2][j % 3] if tier == "quick" else rng.randrange(10_000),
                              "sched": G.rand_sched(rng, len(g["world_spec"]["files"])), "enum_seed": rng.randrange(1000),
                              "heap_shift": rng.choice([1, 7, 100, 1000, 12345, 50_000]), "workers": rng.choice([None, 2, 4]),
                              "order_seed": rng.randrange(1000)})
            return {"kind": "ff-any", "world_spec": g["world_spec"], "include": g["include"], "perturbations": perts}
        if r < 0.65:
            kind = "ff"
            n = rng.randint(2, 9)
            cids = rng.sample(ff_pool(), rng.randint(1, 4))
            for _ in range(n):
                f = G.gen_py_file(rng, used, cids, n_snip=(1, 2))
                if f:
                    files.append(f)
            if rng.random() < 0.5:
                files.append(G.gen_neutral(rng, used))
            include = list(cids)
            rng.shuffle(include)
        elif r < 0.85:
            kind = "sast-default"
            # SAST mode without --codemod-include: eligibility spans the sonar/semgrep/defectdojo registries
            pool = [c for c in sast_pool() if G.info(c)["origin"] in ("sonar",)]
            cids = rng.sample(pool, rng.randint(1, 3))
            for c in cids:
                for _ in range(rng.randint(1, 2)):
                    f = G.gen_sast_file(rng, used, c)
                    if f:
                        files.append(f)
            include = None
        else:
            kind = "wildcard"
            name = rng.choice(["secure-random", "django-json-response-type", "enable-jinja2-autoescape",
                               "jwt-decode-verify", "url-sandbox", "harden-pyyaml", "requests-verify"])
            include = [f"*:python/{name}"]
            pool = [c for c in G.ids() if c.endswith("/" + name) and G.info(c)["origin"] != "pixee"]
            cids = pool
            for c in cids:
                f = G.gen_sast_file(rng, used, c)
                if f:
                    files.append(f)
        if len(files) < 1:
            return None
        if kind == "ff" and rng.random() < 0.35:
            # several files the codemods fail on: the order in which failures are reported is part of the report
            for _ in range(rng.randint(2, 6)):
                files.append({"path": G.rand_path(rng, used), "raw": {"t": rng.choice(["def broken(:\n    pass\n", "x = (\n", "class :\n"])}})
        hs = [0] + [rng.randrange(1, 10_000) for _ in range(3)]
        if tier == "quick":
            hs = [0, 1 + (i % 7), 11 + (i % 5)]  # keeps the number of distinct interpreters small
        perts = []
        n_pert = rng.randint(5, 8)
        nfiles = len(files)
        for j in range(n_pert):
            p = {
                "hashseed": hs[j % len(hs)] if j else 0,
                "sched": G.rand_sched(rng, nfiles) if j else {"seed": 0, "policy": "fifo", "line_p": 0.0},
                "enum_seed": rng.randrange(1000) if j else None,
                "heap_shift": rng.choice([0, 0, 1000, 50_000]) if j else 0,
                "workers": rng.choice([None, 1, 2, 3, 4, 8]) if j else None,
                "order_seed": rng.randrange(1000) if j and rng.random() < 0.5 else None,
            }
            perts.append(p)
        # one perturbation that maximises concurrency with fewer workers than files
        if nfiles >= 3:
            perts.append({"hashseed": 0, "sched": {"seed": rng.randrange(1 << 30), "policy": "eager-start", "line_p": 0.0},
                          "enum_seed": None, "heap_shift": 0, "workers": 2, "order_seed": None})
        exp = {"kind": kind, "world_spec": {"files": files}, "include": include, "perturbations": perts}
        if kind in ("ff", "sast-default", "wildcard"):
            # one-file sub-world (with only that file's findings in SAST modes): run(D)|f == run({f})|f
            py = [f["path"] for f in files if "snippets" in f]
            if py and len(files) > 1:
                exp["sibling"] = rng.choice(py)
        return exp

    def execute(self, exp, ctx):
        world, meta = W.build_world(exp["world_spec"])
        specs = []
        for p in exp["perturbations"]:
            argv, results = build_argv(exp, meta, p.get("workers"))
            w = dict(world)
            w["results"] = results
            if p.get("order_seed") is not None:
                import random

                order = sorted(w["files"])
                random.Random(f"order:{p['order_seed']}").shuffle(order)
                w["order"] = order
            spec = {"name": "pert", "world": w, "argv": argv, "hashseed": p["hashseed"], "sched": p["sched"],
                    "enum_seed": p["enum_seed"], "heap_shift": p["heap_shift"]}
            specs.append(spec)
        sib = None
        if exp.get("sibling"):
            f = exp["sibling"]
            ws = {"files": [x for x in exp["world_spec"]["files"] if x["path"] == f]}
            world1, meta1 = W.build_world(ws)
            # same arguments as the full run: every result-file option stays (with only this file's findings), otherwise the
            # sub-world would also change the eligibility mode (SAST mode is switched on by --sonar-issues-json / --sarif)
            for kind in meta["findings"]:
                meta1["findings"].setdefault(kind, [])
            argv, results = build_argv(exp, meta1, None)
            world1["results"] = results
            specs.append({"name": "sibling", "world": world1, "argv": argv, "hashseed": 0,
                          "sched": {"seed": 0, "policy": "fifo", "line_p": 0.0}, "enum_seed": None})
        outs = ctx.run_many(specs)
        p0 = exp["perturbations"][0]
        for p in exp["perturbations"][1:]:
            for dim, name in (("hashseed", "hashseed"), ("enum_seed", "enum-permute"), ("heap_shift", "heap-shift"),
                              ("workers", "worker-count"), ("order_seed", "creation-order")):
                if p.get(dim) != p0.get(dim):
                    ctx.note_fault(name)
            if p["sched"] != p0["sched"]:
                ctx.note_fault("schedule:" + p["sched"].get("policy", "?"))
        if exp.get("sibling"):
            ctx.note_fault("sibling-subset")
        if exp.get("sibling"):
            sib = outs.pop()
        return {"perts": outs, "sibling": sib}

    def oracle(self, exp, outcomes):
        v = []
        outs = outcomes["perts"]
        keys = [outcome_key(o) for o in outs]
        ref = keys[0]
        for j, k in enumerate(keys[1:], 1):
            if k != ref:
                diff = [f for f in ref if ref[f] != k[f]]
                what = ",".join(diff)
                detail = {"differs": diff, "perturbation": exp["perturbations"][j], "index": j}
                if "report" in diff and ref["report"] and k["report"]:
                    ra = [r.get("codemod") for r in ref["report"].get("results", [])]
                    rb = [r.get("codemod") for r in k["report"].get("results", [])]
                    if ra != rb:
                        what = "result-order" if sorted(ra) == sorted(rb) else "result-set"
                        detail["order_ref"] = ra[:12]
                        detail["order_other"] = rb[:12]
                varied = []
                p0, pj = exp["perturbations"][0], exp["perturbations"][j]
                for dim in ("hashseed", "workers", "enum_seed", "order_seed", "heap_shift"):
                    if p0.get(dim) != pj.get(dim):
                        varied.append(dim)
                v.append({"clause": "outcome-constant", "key": f"C11:outcome-differs:{what}:{exp['kind']}",
                          "detail": detail, "pair": [0, j], "varied": varied})
                break
        for j, o in enumerate(outs):
            w = exp["perturbations"][j].get("workers") or 1
            m = max(o["stats"]["max_inflight"], o["stats"]["max_inflight_pool"])
            if m > w:
                v.append({"clause": "max-inflight", "key": "C11:max-inflight-exceeds-max-workers",
                          "detail": {"max_workers": w, "in_flight": m, "pool_sizes": o["stats"]["max_workers_seen"][:3],
                                     "perturbation": exp["perturbations"][j]}, "pair": [j]})
                break
        sib = outcomes.get("sibling")
        if sib is not None and exp.get("sibling"):
            f = exp["sibling"]
            full = outs[0]
            a = full["changed"].get(f)
            b = sib["changed"].get(f)
            ca = {c: [cs for r in rs for cs in r.get("changeset", []) if cs.get("path") == f]
                  for c, rs in results_by_codemod(full["report"]).items()}
            cb = {c: [cs for r in rs for cs in r.get("changeset", []) if cs.get("path") == f]
                  for c, rs in results_by_codemod(sib["report"]).items()}
            if a != b or ca != cb:
                v.append({"clause": "sibling-independence", "key": "C11:sibling-dependence",
                          "detail": {"file": f, "bytes_equal": a == b, "changesets_equal": ca == cb}, "pair": [0]})
        return v

    def nontrivial(self, exp, outcomes):
        return bool(outcomes["perts"][0]["changed"]) and len(outcomes["perts"]) >= 2

    def shrink(self, exp):
        # 1. fewer perturbations (keep the reference)
        ps = exp["perturbations"]
        if len(ps) > 2:
            for j in range(len(ps) - 1, 0, -1):
                c = copy.deepcopy(exp)
                c["perturbations"] = [ps[0], ps[j]]
                yield c
        # 2. drop the sibling execution
        if exp.get("sibling"):
            c = copy.deepcopy(exp)
            c.pop("sibling")
            yield c
        # 3. drop files
        fs = exp["world_spec"]["files"]
        if len(fs) > 1:
            for j in range(len(fs)):
                if fs[j]["path"] == exp.get("sibling"):
                    continue
                c = copy.deepcopy(exp)
                del c["world_spec"]["files"][j]
                yield c
        # 4. drop codemods
        inc = exp.get("include") or []
        if len(inc) > 1:
            for j in range(len(inc)):
                c = copy.deepcopy(exp)
                del c["include"][j]
                yield c
        # 5. neutralise perturbation dimensions one at a time
        if len(ps) == 2:
            for dim, val in (("hashseed", 0), ("enum_seed", None), ("heap_shift", 0), ("order_seed", None),
                             ("sched", {"seed": 0, "policy": "fifo", "line_p": 0.0})):
                if ps[1].get(dim) != val:
                    c = copy.deepcopy(exp)
                    c["perturbations"][1][dim] = val
                    yield c
        # 6. simpler layouts
        for j, f in enumerate(fs):
            if f.get("layout"):
                c = copy.deepcopy(exp)
                c["world_spec"]["files"][j]["layout"] = {}
                yield c

    def sample(self, exp, outcomes):
        return {"kind": exp["kind"], "include": exp.get("include"),
                "files": [{k: v for k, v in f.items() if k != "raw"} for f in exp["world_spec"]["files"]][:6],
                "perturbations": exp["perturbations"][:3],
                "changed_files": sorted(outcomes["perts"][0]["changed"]),
                "max_inflight": [o["stats"]["max_inflight"] for o in outcomes["perts"]]}


CHECK = C11()
