"""C07 - re-running a codemod on its own output changes nothing: the same job delivered twice
(second delivery under another schedule, worker count, enumeration order and hash seed)."""
import copy

from simbox import gen as G
from simbox import world as W
from simbox.framework import Check


class C07(Check):
    id = "C07"
    level = "exploration"
    rule = ("experiment = generated project x codemod list (single codemods and short sequences over the whole registry incl. "
            "SAST codemods with result files, dependency-adding codemods with manifests, plugin pipelines); executions = real "
            "run, then the identical job (same argv, env, result files) on the first run's output tree under a different "
            "schedule seed/policy, worker count, enumeration permutation and hash seed; non-trivial = first run changed a file; "
            "distinct = by experiment digest")
    assumptions = ["one re-run (the statement is about one)"]
    budgets = {"quick": {"n": 165, "wall": 170}, "thorough": {"n": 1700, "wall": 1700}}

    def extra_batches(self, tier):
        """one fixed experiment per listed known finding, so that each is demonstrated (or seen fixed) on every run"""
        simple = {"sched": {"seed": 0, "policy": "fifo", "line_p": 0.0}, "workers": None, "enum_seed": None, "hashseed": 0}
        out = []
        for cid, sn in (("pixee:python/flask-json-response-type", [463, 464]), ("pixee:python/harden-pyyaml", [502, 485])):
            path = "deep/er/and/deeper/views.py" if cid.endswith("order-imports") else "pkg/two.py"  # isort looks at the location
            out.append({"kind": "fixed:known", "world_spec": {"files": [{"path": path, "snippets": sn, "layout": {}}]}, "include": [cid],
                        "plugins": False, "path_include": None, "extra_findings": {}, "runs": [simple, simple]})
        return out

    def gen(self, rng, i, tier):
        # ONE codemod per experiment: the statement is about re-running "the same codemod"; a sequence K1;K2 is not
        # claimed to be a fixed point (K1 may legitimately act on what K2 produced)
        # registered codemods only: the harness-defined plugin codemods (e.g. "add an element to every <config>") are not
        # idempotent by construction and C07 makes no claim about them
        exp = G.gen_general(rng, kinds=("ff", "ff", "ff-dep", "sast"), max_codemods=1)
        exp["include"] = exp["include"][:1]
        if tier == "quick" and i < 101:
            # walk the registry once: one trigger snippet of every codemod
            cid = G.codemods()[i]["id"]
            r = G.pick_snippet(rng, cid, plain=False)
            if r is not None:
                path = G.rand_path(rng, set()) if G.is_plain_snippet(r) else "proj/" + r["relpath"]
                lay = G.rand_layout(rng, sast=bool(r.get("tool")))
                lay.pop("bom", None)
                lay.pop("wrap", None)
                files = [{"path": path, "snippets": [r["idx"]], "layout": lay}] + G.gen_manifests(rng, k=rng.choice([0, 0, 1]))
                exp = {"kind": "registry-walk", "world_spec": {"files": files}, "include": [cid], "plugins": False,
                       "path_include": None, "extra_findings": {}}
        if tier == "quick" and 101 <= i < 101 + len(W.snippets()) - 1203:
            # the hand-added corpus entries (shapes the harvested tests lack), every run
            r = W.snippets()[1203 + i - 101]
            exp = {"kind": "hand-added", "world_spec": {"files": [{"path": "pkg/hand.py", "snippets": [r["idx"]], "layout": {}}]},
                   "include": [r["codemod"]], "plugins": False, "path_include": None, "extra_findings": {}}
        if tier == "thorough" and i < 1203:
            # walk the whole snippet corpus once
            r = W.snippets()[i]
            if r["expect_change"]:
                path = G.rand_path(rng, set()) if G.is_plain_snippet(r) else "proj/" + r["relpath"]
                files = [{"path": path, "snippets": [r["idx"]], "layout": {}}] + G.gen_manifests(rng, k=rng.choice([0, 0, 1]))
                exp = {"kind": "corpus-walk", "world_spec": {"files": files}, "include": [r["codemod"]], "plugins": False,
                       "path_include": None, "extra_findings": {}}
        if tier == "thorough" and 1203 + 3 * 101 <= i < 1203 + 3 * 101 + len(W.snippets()) - 1203:
            r = W.snippets()[1203 + i - (1203 + 3 * 101)]
            exp = {"kind": "hand-added", "world_spec": {"files": [{"path": "pkg/hand.py", "snippets": [r["idx"]], "layout": {}}]},
                   "include": [r["codemod"]], "plugins": False, "path_include": None, "extra_findings": {}}
        if tier == "thorough" and 1203 <= i < 1203 + 3 * 101:
            # every codemod with two of its own trigger snippets in ONE file (several sites per file)
            j = i - 1203
            cid = G.codemods()[j % 101]["id"]
            cands = [r for r in W.triggering(cid) if G.is_plain_snippet(r)]
            if cands:
                a, b = rng.choice(cands), rng.choice(cands)
                lay = {} if G.info(cid)["origin"] == "pixee" else None
                if lay is not None:
                    exp = {"kind": "two-sites", "world_spec": {"files": [{"path": "pkg/two.py", "snippets": [a["idx"], b["idx"]], "layout": {}}]},
                           "include": [cid], "plugins": False, "path_include": None, "extra_findings": {}}
        if not exp["world_spec"]["files"] or not exp["include"]:
            return None
        n = len(exp["world_spec"]["files"])
        exp["runs"] = [
            {"sched": G.rand_sched(rng, n), "workers": rng.choice([None, 2, 4]), "enum_seed": rng.choice([None, rng.randrange(100)]), "hashseed": 0},
            {"sched": G.rand_sched(rng, n), "workers": rng.choice([None, 1, 3, 8]), "enum_seed": rng.randrange(100), "hashseed": 1 + i % 3},
        ]
        return exp

    def execute(self, exp, ctx):
        world, meta = W.build_world(exp["world_spec"])
        outs = []
        files = world["files"]
        for r in exp["runs"]:
            argv, results = G.general_argv(exp, meta, workers=r.get("workers"))
            w = dict(world, files=files, results=results)
            o = ctx.run({"name": f"run{len(outs)}", "world": w, "argv": argv, "hashseed": r["hashseed"], "sched": r["sched"],
                         "enum_seed": r.get("enum_seed"), "plugins": exp.get("plugins", False)})
            outs.append(o)
            files = W.apply_changes(files, o["changed"])
        return outs

    def oracle(self, exp, outcomes):
        v = []
        first, second = outcomes[0], outcomes[1]
        if first["status"] != 0 or first["exception"]:
            return v  # not C07's business (C10/C20)
        rep = second["report"] or {}
        again = [(r.get("codemod"), [c.get("path") for c in r.get("changeset", [])]) for r in rep.get("results", []) if r.get("changeset")]
        muts = [m for m in second["mutations"] if m[1].startswith("<T>") or m[3] == "T"]
        if second["status"] != 0 or second["exception"]:
            v.append({"clause": "second-run-failed", "key": f"C07:second-run-failed:{','.join(exp['include'][:2])}",
                      "detail": {"status": second["status"], "exception": second["exception"]}})
            return v
        if again or second["changed"] or muts:
            cids = sorted({c for c, _ in again}) or exp["include"]
            paths = sorted({p for _, ps in again for p in ps} | set(second["changed"]))
            manifest = any(p.split("/")[-1] in G.MANIFEST_FILES for p in paths)
            # the key names the inputs (corpus snippet numbers, append-only) of the files the second run touched, so that a
            # listed known finding covers that input only and another input failing for the same codemod is still reported
            sn = sorted({x for f in exp["world_spec"]["files"] if f["path"] in paths for x in f.get("snippets", [])})
            tag = "+".join(f"s{x}" for x in sn) or "raw"
            v.append({"clause": "second-run-changes", "key": "C07:not-a-fixed-point:" + ",".join(cids) + (":manifest" if manifest else "") + ":" + tag,
                      "detail": {"codemods": cids, "paths": paths[:5], "changed_bytes": sorted(second["changed"])[:5],
                                 "mutating_events": muts[:3], "include": exp["include"]}})
        return v

    def nontrivial(self, exp, outcomes):
        return bool(outcomes[0]["changed"])

    def shrink(self, exp):
        fs = exp["world_spec"]["files"]
        if len(exp["include"]) > 1:
            for j in range(len(exp["include"])):
                c = copy.deepcopy(exp)
                del c["include"][j]
                yield c
        if len(fs) > 1:
            for j in range(len(fs)):
                c = copy.deepcopy(exp)
                del c["world_spec"]["files"][j]
                yield c
        for j, f in enumerate(fs):
            if len(f.get("snippets", [])) > 1:
                for k in range(len(f["snippets"])):
                    c = copy.deepcopy(exp)
                    del c["world_spec"]["files"][j]["snippets"][k]
                    yield c
            if f.get("layout"):
                c = copy.deepcopy(exp)
                c["world_spec"]["files"][j]["layout"] = {}
                yield c
        simple = {"sched": {"seed": 0, "policy": "fifo", "line_p": 0.0}, "workers": None, "enum_seed": None, "hashseed": 0}
        if exp["runs"] != [simple, simple]:
            c = copy.deepcopy(exp)
            c["runs"] = [simple, simple]
            yield c

    def sample(self, exp, outcomes):
        return {"kind": exp["kind"], "include": exp["include"], "files": [f["path"] for f in exp["world_spec"]["files"]],
                "first_changed": sorted(outcomes[0]["changed"]), "second_changed": sorted(outcomes[1]["changed"])}


CHECK = C07()
