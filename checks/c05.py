"""C05 - exactly the files selected by the include/exclude patterns are touched; nothing outside
the target is written (confinement observed at the file seam + outside-tree snapshot)."""
import copy
import fnmatch
import json

from simbox import gen as G
from simbox import world as W
from simbox.framework import Check
from simbox.util import enc

# the documented defaults (vendored on purpose: a change of the defaults in the repository is a change of behaviour)
DEFAULT_INCLUDED = ["**.py", "**/*.py"]
DEFAULT_EXCLUDED = ["test/**", "tests/**", "**/__test__/**", "**/__tests__/**", "conftest.py", "build/**", "dist/**", "venv/**",
                    "**/site-packages/**", ".venv/**", ".tox/**", ".nox/**", ".eggs/**", ".git/**", ".mypy_cache/**",
                    ".pytest_cache/**", ".hypothesis/**", ".coverage*"]

FF_CODEMODS = ["pixee:python/remove-unnecessary-f-str", "pixee:python/fix-mutable-params", "pixee:python/use-set-literal",
               # semgrep-detected find-and-fix codemods: their detector falls back to scanning the whole directory when the
               # pre-filter found nothing among the selected files
               "pixee:python/secure-random", "pixee:python/harden-pyyaml"]
SAST_CODEMODS = ["sonar:python/fix-assert-tuple", "sonar:python/exception-without-raise", "sonar:python/remove-assertion-in-pytest-raises"]
DIRS = ["", "pkg", "pkg/sub", "pkg/sub/deep", "app", "tests", "tests/unit", "test", "build/lib", "dist", "venv/lib", ".venv", ".git/hooks",
        "lib/site-packages/x", "pkg/__tests__", "src/__test__", ".tox/py", "docs",
        # directories whose *suffix* looks like a default-excluded or user-named one (patterns are anchored at the start)
        "pkg/tests", "src/build", "app/dist", "pkg/venv/lib", "lib/app", "x/pkg", "legacy"]
NAMES = ["a.py", "b.py", "ab.py", "conftest.py", "mod.py", "x1.py", "x2.py", "notes.txt", "data.json", "A.py", "a.pyi", ".coveragerc.py"]


def _split(pat):
    """'glob[:line]' -> (glob, line or None)"""
    g, _, l = pat.partition(":")
    return g, (int(l) if l.isdigit() else None)


def ref_selected(rel, includes, excludes, mode, trigger_lines=()):
    """executable model of the statement (fnmatch globbing over the relative path). True / False, or None = either outcome
    is acceptable: the statement fixes what a ':line' suffix must NOT do (exclude a whole file) and that a file matching an
    include pattern is selected; whether the line part also narrows the selection inside the file is left open, so a file
    selected only through ':L' includes none of which names a trigger line, or carrying a ':L' exclude that names one, may or may not change."""
    inc = [_split(p) for p in includes] if includes else [(p, None) for p in DEFAULT_INCLUDED]
    if mode == "ff":
        exc = [p for p in excludes if ":" not in p] if excludes else DEFAULT_EXCLUDED
    else:
        exc = [p for p in excludes if ":" not in p]
    hits = [l for g, l in inc if fnmatch.fnmatchcase(rel, g)]
    if not hits:
        return False
    if any(fnmatch.fnmatchcase(rel, p) for p in exc):
        return False
    if not rel.endswith(".py"):  # the codemods used here are Python codemods
        return False
    if None not in hits and not any(l in trigger_lines for l in hits):
        return None
    if any(fnmatch.fnmatchcase(rel, g) and l in trigger_lines for g, l in map(_split, excludes or []) if l is not None):
        return None
    return True


def gen_patterns(rng, paths, k):
    pats = []
    for _ in range(k):
        p = rng.choice(paths)
        parts = p.split("/")
        r = rng.random()
        if r < 0.15:
            pat = p
        elif r < 0.3:
            # '@k' = resolved after calibration: the k-th trigger line (include) / a line that is no trigger (exclude)
            pat = p + ":" + (f"@{rng.randrange(3)}" if rng.random() < 0.6 else str(rng.choice([1, 2, 3, 4, 10, 12, 17, 140])))
        elif r < 0.45:
            pat = (parts[0] + "/**") if len(parts) > 1 else "*.py"
        elif r < 0.55:
            pat = "**/" + parts[-1]
        elif r < 0.65:
            pat = "/".join(parts[:-1] + ["*.py"]) if len(parts) > 1 else "*.py"
        elif r < 0.69:
            pat = "**/" + parts[-1][0] + "?.py"
        elif r < 0.72:
            # '?' / a character class WITHOUT any '*': still a glob, not a literal path
            pat = "/".join(parts[:-1] + [parts[-1][0] + rng.choice(["?.py", "[12b].py", "[!z].py"])])
        elif r < 0.8:
            pat = "[ab]*.py" if rng.random() < 0.5 else "**/[!a]*.py"
        elif r < 0.86:
            pat = "nomatch/**"
        elif r < 0.92:
            pat = "**/" + (parts[-2] if len(parts) > 1 else "pkg") + "/*"
        else:
            pat = rng.choice(["*", "**", "*.py", "**/*.py", "*/*.py"])
        if pat not in pats and "," not in pat:
            pats.append(pat)
    return pats


class C05(Check):
    id = "C05"
    level = "exploration"
    rule = ("experiment = generated tree (nested dirs, test/build/venv/VCS/site-packages dirs, non-Python files, symlinked files and "
            "directories to inside / outside / cyclic, an outside sibling tree) in which every Python file carries a trigger of a "
            "detector-less sibling-independent codemod (or a Sonar finding in SAST mode) or is neutral x 0-4 include and 0-4 exclude "
            "patterns built from the tree's own path components (*, **, ?, classes, with/without :line, unmatched) x find-and-fix or "
            "SAST mode; oracle: changed set == reference selection AND self-calibrated trigger set; no mutating event resolves outside "
            "target/report/tmp; outside tree unchanged; non-trivial = reference selection and its complement both non-empty among "
            "trigger files, or a symlink/outside structure is present; distinct = by experiment digest")
    assumptions = [
        "glob semantics of the reference = fnmatch over the relative path (the documented 'UNIX glob patterns'), defaults vendored",
        "the glob-algebra part is a configuration space that simulation merely samples; confinement/symlinks are decided at the seam",
        "trigger set is self-calibrated by a separate execution on neutral paths, never taken from the corpus",
    ]
    budgets = {"quick": {"n": 60, "wall": 170}, "thorough": {"n": 800, "wall": 1500}}

    def extra_batches(self, tier):
        """fixed pattern shapes: '?' and character classes without any '*', hidden directories, './'-free literal paths"""
        import random

        r = G.pick_snippet(random.Random("c05-fixed"), "pixee:python/remove-unnecessary-f-str")
        paths = ["pkg/ab.py", "pkg/x1.py", "pkg/x2.py", "pkg/y1.py", ".hidden/h.py", "hidden/v.py", "top.py"]
        files = [{"path": p, "snippets": [r["idx"]], "layout": {}, "trigger_of": "pixee:python/remove-unnecessary-f-str"} for p in paths]
        exps = []
        for inc, exc in ((["pkg/x?.py"], []), ([], ["pkg/x[12].py"]), (["pkg/[!x]?.py", "top.py"], []), (["pkg/x?.py:@0"], ["pkg/x1.py:@0"]),
                         ([".hidden/**"], []), ([], [".hidden/**"]), (["hidden/**", "pkg/ab.py"], ["pkg/a?.py"])):
            exps.append({"kind": "fixed:pattern-shapes", "mode": "ff", "include": ["pixee:python/remove-unnecessary-f-str"], "files": files, "symlinks": {},
                         "outside": {}, "path_include": inc, "path_exclude": exc, "sched": {"seed": 0, "policy": "fifo", "line_p": 0.0},
                         "workers": None, "enum_seed": None})
        return exps

    def gen(self, rng, i, tier):
        mode = "ff" if rng.random() < 0.65 else "sast"
        cids = rng.sample(FF_CODEMODS if mode == "ff" else SAST_CODEMODS, rng.randint(1, 2))
        used = set()
        files = []
        n = rng.randint(4, 16)
        for _ in range(n):
            d = rng.choice(DIRS)
            name = rng.choice(NAMES)
            p = (d + "/" if d else "") + name
            if p in used:
                continue
            used.add(p)
            if name.endswith(".py") and rng.random() < 0.8:
                cid = rng.choice(cids)
                r = G.pick_snippet(rng, cid)
                files.append({"path": p, "snippets": [r["idx"]], "layout": {"offset": rng.choice([0, 0, 0, 8, 15, 120])}, "trigger_of": cid})
            elif name.endswith(".py"):
                files.append({"path": p, "raw": {"t": rng.choice(G.NEUTRAL)}})
            else:
                files.append({"path": p, "raw": {"t": "not python f'x' def f(x=[]): pass\n"}})
        pys = [f["path"] for f in files if f["path"].endswith(".py")]
        if not pys:
            return None
        symlinks = {}
        outside = {}
        if rng.random() < 0.6:
            outside["out_a.py"] = enc(b"def f(x=[]):\n    return f'hello'\nassert (1, 2)\n")
            outside["odir/out_b.py"] = enc(b"def g(y={}):\n    return f'world'\n")
            for _ in range(rng.randint(1, 4)):
                kind = rng.choice(["file-in", "file-out", "dir-in", "dir-out", "loop", "dangling"])
                name = rng.choice(["ln_a.py", "ln_b.py", "lnk", "pkg/ln_c.py", "pkg/lnd", "app/loop"])
                if name in used:
                    continue
                used.add(name)
                if kind == "file-in":
                    symlinks[name] = "<T>/" + rng.choice(pys)
                elif kind == "file-out":
                    symlinks[name] = "<X>/out_a.py"
                elif kind == "dir-in":
                    symlinks[name] = "<T>/" + rng.choice([p.rsplit("/", 1)[0] for p in pys if "/" in p] or ["pkg"])
                elif kind == "dir-out":
                    symlinks[name] = "<X>/odir" if rng.random() < 0.5 else "<X>"
                elif kind == "loop":
                    symlinks[name] = "<T>"
                else:
                    symlinks[name] = "<T>/does/not/exist.py"
        if mode == "ff" and rng.random() < 0.35:
            # a dependency-adding codemod with dependency manifests that are symlinks to files outside the target (directly,
            # or inside a symlinked directory), optionally next to a real manifest: writers must not write through them
            cids = cids + ["pixee:python/url-sandbox"]
            r = G.pick_snippet(rng, "pixee:python/url-sandbox")
            p = rng.choice(["svc.py", "pkg/svc.py"])
            if p not in used:
                used.add(p)
                files.append({"path": p, "snippets": [r["idx"]], "layout": {}, "trigger_of": "pixee:python/url-sandbox"})
                pys.append(p)
            outside["out_reqs.txt"] = enc(b"requests==2.0\n")
            outside["odir/requirements.txt"] = enc(b"flask\n")
            outside["odir/setup.cfg"] = enc(b"[options]\ninstall_requires =\n    requests\n")
            for name, target in rng.sample([("requirements.txt", "<X>/out_reqs.txt"), ("deploy/requirements.txt", "<X>/odir/requirements.txt"),
                                            ("setup.cfg", "<X>/odir/setup.cfg"), ("vendor", "<X>/odir")], rng.randint(1, 3)):
                if name not in used:
                    used.add(name)
                    symlinks[name] = target
            if rng.random() < 0.4 and "pyproject.toml" not in used:
                files.append({"path": "pyproject.toml", "raw": {"t": '[project]\nname = "x"\ndependencies = [\n    "requests",\n]\n'}})
        inc = gen_patterns(rng, pys, rng.choice([0, 0, 1, 2, 4]))
        exc = gen_patterns(rng, pys, rng.choice([0, 0, 1, 2, 4]))
        r = rng.random()
        if r < 0.06:
            inc = [""] * rng.randint(1, 2)  # `--path-include ""` / `","`: a list that matches nothing, not "use the defaults"
        elif r < 0.12:
            exc = [""] * rng.randint(1, 2)  # replaces the default excludes by a list that excludes nothing
        elif r < 0.18 and inc:
            inc = inc + [""]  # a trailing comma
        return {"kind": mode, "mode": mode, "include": cids, "files": files, "symlinks": symlinks, "outside": outside,
                "path_include": inc, "path_exclude": exc, "sched": G.rand_sched(rng, len(files)), "workers": rng.choice([None, 2, 4]),
                "enum_seed": rng.choice([None, rng.randrange(100)])}

    def _argv(self, exp, meta, inc, exc):
        results, ropts = W.default_delivery(meta)
        argv = ["<T>", "--output", "<O>/report.codetf", "--codemod-include", ",".join(exp["include"])] + ropts
        if inc:
            argv += ["--path-include", ",".join(inc)]
        if exc:
            argv += ["--path-exclude", ",".join(exc)]
        if exp.get("workers"):
            argv += ["--max-workers", str(exp["workers"])]
        return argv, results

    def execute(self, exp, ctx):
        spec = {"files": [{k: v for k, v in f.items() if k != "trigger_of"} for f in exp["files"]],
                "symlinks": exp["symlinks"], "outside": exp["outside"]}
        world, meta = W.build_world(spec)
        # calibration world: every distinct python content at a neutral root-level path (findings retargeted)
        cal_files = []
        cal_map = {}
        for f in exp["files"]:
            if f["path"].endswith(".py") and "snippets" in f:
                key = json.dumps([f["snippets"], f.get("layout")])
                if key not in cal_map:
                    cal_map[key] = f"cal_{len(cal_map)}.py"
                    cal_files.append({"path": cal_map[key], "snippets": f["snippets"], "layout": f.get("layout") or {}})
        cworld, cmeta = W.build_world({"files": cal_files})
        cargv, cresults = self._argv(exp, cmeta, [], [])
        base = {"hashseed": 0, "sched": exp["sched"], "enum_seed": exp.get("enum_seed")}
        cal = ctx.run(dict(base, name="calibrate", world=dict(cworld, results=cresults), argv=cargv))
        cal_lines = {}
        for r in (cal["report"] or {}).get("results", []):
            for cs in r.get("changeset", []):
                cal_lines.setdefault(cs.get("path"), set()).update(c.get("lineNumber") for c in cs.get("changes", []))
        trig, lines = {}, {}
        for f in exp["files"]:
            if f["path"].endswith(".py") and "snippets" in f:
                cp = cal_map[json.dumps([f["snippets"], f.get("layout")])]
                trig[f["path"]] = cp in cal["changed"]
                lines[f["path"]] = sorted(x for x in cal_lines.get(cp, ()) if isinstance(x, int))

        def resolve(pats, exclude):
            out = []
            for pat in pats:
                g, _, l = pat.partition(":")
                if l.startswith("@"):
                    k, ls = int(l[1:]), lines.get(g, [])
                    if exclude:
                        l = str((max(ls) if ls else 0) + 1 + k)  # names no trigger line: must not keep the file from being fixed
                    else:
                        l = str(ls[k % len(ls)] if ls else 1 + k)
                    pat = g + ":" + l
                out.append(pat)
            return out

        inc, exc = resolve(exp["path_include"], False), resolve(exp["path_exclude"], True)
        argv, results = self._argv(exp, meta, inc, exc)
        run = ctx.run(dict(base, name="run", world=dict(world, results=results), argv=argv))
        return {"run": run, "cal": cal, "trigger": trig, "lines": lines, "inc": inc, "exc": exc}

    def oracle(self, exp, outcomes):
        v = []
        run, trig = outcomes["run"], outcomes["trigger"]
        if run["status"] != 0 or run["exception"]:
            return [{"clause": "run-failed", "key": f"C05:run-failed:{exp['mode']}",
                     "detail": {"status": run["status"], "exception": run["exception"], "tb": (run["traceback"] or "")[-500:],
                                "include": exp["path_include"], "exclude": exp["path_exclude"], "symlinks": exp["symlinks"]}}]
        inc, exc = outcomes["inc"], outcomes["exc"]
        sel = {p: ref_selected(p, inc, exc, exp["mode"], outcomes["lines"].get(p, ())) for p, t in trig.items() if t}
        expected = sorted(p for p, x in sel.items() if x is True)
        optional = {p for p, x in sel.items() if x is None}
        outcomes["_expected"] = expected
        outcomes["_triggers"] = sorted(p for p, t in trig.items() if t)
        changed = sorted(p for p in run["changed"] if p.endswith(".py"))  # manifests are governed by the confinement clauses
        cs_paths = sorted({c.get("path") for r in (run["report"] or {}).get("results", []) for c in r.get("changeset", [])
                           if str(c.get("path")).endswith(".py")})
        pat = {"include": inc, "exclude": exc, "mode": exp["mode"]}
        extra = sorted(set(changed) - set(expected) - optional)
        missing = sorted(set(expected) - set(changed))
        if extra or missing:
            what = "extra" if extra and not missing else ("missing" if missing and not extra else "both")
            sym = any(x in exp["symlinks"] or any(x.startswith(s + "/") for s in exp["symlinks"]) for x in extra)
            v.append({"clause": "changed-set", "key": f"C05:changed-set:{what}{':via-symlink' if sym else ''}:{exp['mode']}",
                      "detail": dict(pat, extra=extra[:6], missing=missing[:6], symlinks=exp["symlinks"], trigger_lines={p: outcomes["lines"].get(p) for p in (extra + missing)[:6]})})
        elif cs_paths != changed:
            v.append({"clause": "changeset-paths", "key": f"C05:changeset-paths:{exp['mode']}",
                      "detail": dict(pat, changeset_paths=cs_paths[:8], changed=changed[:8])})
        if run["escapes"]:
            v.append({"clause": "confinement", "key": f"C05:write-outside-target:{run['escapes'][0][0]}",
                      "detail": dict(pat, escapes=run["escapes"][:5], symlinks=exp["symlinks"])})
        if run["outside_changed"]:
            v.append({"clause": "outside-tree", "key": "C05:outside-tree-changed",
                      "detail": dict(pat, changed=run["outside_changed"][:5], symlinks=exp["symlinks"])})
        return v

    def nontrivial(self, exp, outcomes):
        e = outcomes.get("_expected", [])
        t = outcomes.get("_triggers", [])
        return (0 < len(e) < len(t)) or bool(exp["symlinks"]) and bool(e)

    def shrink(self, exp):
        for key in ("path_include", "path_exclude"):
            for j in range(len(exp[key])):
                c = copy.deepcopy(exp)
                del c[key][j]
                yield c
        for name in list(exp["symlinks"]):
            c = copy.deepcopy(exp)
            del c["symlinks"][name]
            yield c
        if len(exp["files"]) > 1:
            for j in range(len(exp["files"])):
                c = copy.deepcopy(exp)
                del c["files"][j]
                yield c
        if len(exp["include"]) > 1:
            for j in range(len(exp["include"])):
                c = copy.deepcopy(exp)
                del c["include"][j]
                yield c

    def sample(self, exp, outcomes):
        return {"mode": exp["mode"], "codemods": exp["include"], "files": [f["path"] for f in exp["files"]], "symlinks": exp["symlinks"],
                "path_include": outcomes.get("inc"), "path_exclude": outcomes.get("exc"), "triggers": outcomes.get("_triggers"),
                "expected_changed": outcomes.get("_expected"), "changed": sorted(outcomes["run"]["changed"])}


CHECK = C05()
