"""C09 - a multi-codemod run equals running the same codemods one at a time, in order, on the
evolving tree (refinement against the chain of single-codemod processes)."""
import copy

from simbox import gen as G
from simbox import world as W
from simbox.framework import Check
from simbox.normalize import results_by_codemod


def gen_pairs(rng):
    """pairs biased to semgrep-detected codemods (the pre-filter is computed once before any rewrite), to codemods whose
    corpus snippets share a file, and to pairs adding the same dependency"""
    sem = G.ids(origin="pixee", detector="semgrep-rule")
    allp = [c for c in G.ids(origin="pixee") if any(G.is_plain_snippet(r) for r in W.triggering(c))]
    r = rng.random()
    if r < 0.35:
        return rng.sample([c for c in sem if c in allp], 2) + ([rng.choice(allp)] if rng.random() < 0.4 else [])
    if r < 0.5:
        deps = [c for c in W.DEP_CODEMODS if c in allp]
        return rng.sample(deps, 2) + ([rng.choice(allp)] if rng.random() < 0.4 else [])
    return rng.sample(allp, rng.randint(2, 6))


class C09(Check):
    id = "C09"
    level = "exploration"
    rule = ("experiment = generated project in which snippets of different codemods share files, lines and manifests x codemod "
            "sequence K1..Kn (pairs/triples biased to semgrep-detected pairs and same-dependency pairs, random 2-6 sequences, SAST "
            "sets, plugin pipelines; the whole default set in thorough); executions = one batch invocation + n single-codemod "
            "invocations (fresh simulated processes) on the evolving tree; non-trivial = at least two codemods of the sequence "
            "changed something in the chain; distinct = by experiment digest")
    assumptions = [
        "real runs only (in a dry run the tree does not evolve)",
        "both sides get the same schedule / hash seed / enumeration draw (C11 decides independence from those)",
        "only results[i] is compared, never run.*",
    ]
    budgets = {"quick": {"n": 40, "wall": 170}, "thorough": {"n": 500, "wall": 1500}}

    def extra_batches(self, tier):
        import random

        fixed = []
        # several dependency-adding codemods in one run (same package twice, package already declared, distinct packages)
        names = {m["name"]: m for m in W.manifests()}
        seqs = [["pixee:python/url-sandbox", "pixee:python/sandbox-process-creation", "pixee:python/harden-pickle-load"],
                ["pixee:python/url-sandbox", "pixee:python/use-defusedxml"],
                ["pixee:python/use-defusedxml", "pixee:python/flask-enable-csrf-protection", "pixee:python/url-sandbox"]]
        for si, seq in enumerate(seqs):
            for mn in ("req-plain", "pyproject-has-security", "setupcfg-multiline", "setuppy-multi", "setupcfg-inline-single"):
                files = []
                for ci, cid in enumerate(seq):
                    rr = G.pick_snippet(random.Random(f"c09-seq-{si}-{ci}"), cid)
                    files.append({"path": f"pkg/m{ci}.py", "snippets": [rr["idx"]], "layout": {}})
                files.append({"path": names[mn]["file"], "manifest": names[mn]["idx"]})
                if si % 2 == 0 and names[mn]["file"] != "requirements.txt":
                    files.append({"path": "requirements.txt", "manifest": names["req-comments"]["idx"]})  # a second store
                fixed.append({"kind": "dep-sequence", "world_spec": {"files": files}, "include": seq, "plugins": False, "path_include": None,
                              "extra_findings": {}, "sched": {"seed": si, "policy": "fifo", "line_p": 0.0}, "workers": None, "enum_seed": None})
        # listed known finding (inline setup.cfg list is not re-read by the repository's own parser): shown on every run
        files = []
        for ci, cid in enumerate(seqs[0][:2]):
            rr = G.pick_snippet(random.Random(f"c09-inline-{ci}"), cid)
            files.append({"path": f"pkg/m{ci}.py", "snippets": [rr["idx"]], "layout": {}})
        for mn in ("setupcfg-inline-single", "setupcfg-inline"):
            fixed.append({"kind": "dep-sequence-inline-cfg", "world_spec": {"files": files + [{"path": "setup.cfg", "manifest": names[mn]["idx"]}]},
                          "include": seqs[0][:2], "plugins": False, "path_include": None, "extra_findings": {},
                          "sched": {"seed": 0, "policy": "fifo", "line_p": 0.0}, "workers": None, "enum_seed": None})
        # an earlier codemod rewrites a file into something a later semgrep-detected codemod matches (stale pre-filter)
        fixed.append({"kind": "prefilter-stale", "world_spec": {"files": [
            {"path": "app/views.py", "raw": {"t": '\nimport requests\nrequests.get("https://example.com")\n'}},
            {"path": "app/other.py", "raw": {"t": "import requests\nurl = input()\nrequests.get(url)\n"}}]},
            "include": ["pixee:python/add-requests-timeouts", "pixee:python/url-sandbox"], "plugins": False, "path_include": None,
            "extra_findings": {}, "sched": {"seed": 0, "policy": "fifo", "line_p": 0.0}, "workers": None, "enum_seed": None})
        # setup.py is both a dependency manifest and a source file that codemods rewrite
        setup_src = 'from setuptools import setup\n\nNAMES = set([1, 2, 3])\n\n\ndef f(x=[]):\n    return f"hello"\n\n\nsetup(\n    name="x",\n    install_requires=[\n        "requests",\n    ],\n)\n'
        for order in (["pixee:python/use-defusedxml", "pixee:python/use-set-literal", "pixee:python/fix-mutable-params"],
                      ["pixee:python/use-set-literal", "pixee:python/url-sandbox", "pixee:python/remove-unnecessary-f-str"]):
            files = [{"path": "setup.py", "raw": {"t": setup_src}}]
            for ci, cid in enumerate(order):
                if cid in W.DEP_CODEMODS:
                    rr = G.pick_snippet(random.Random(f"c09-setup-{ci}"), cid)
                    files.append({"path": f"pkg/m{ci}.py", "snippets": [rr["idx"]], "layout": {}})
            fixed.append({"kind": "setup-py-manifest-and-source", "world_spec": {"files": files}, "include": order, "plugins": False,
                          "path_include": None, "extra_findings": {}, "sched": {"seed": 0, "policy": "fifo", "line_p": 0.0}, "workers": None,
                          "enum_seed": None})
        # a file no codemod can process: each codemod of the batch must fail on it exactly as it does alone
        BAD = [{"path": "pkg/broken_syntax.py", "raw": {"t": "def broken(:\n    return f'x'\n"}}, {"path": "pkg/broken_bytes.py", "raw": {"b": "/v8AZGVmIGYoeD1bXSk6IHBhc3MK"}}]
        good = [{"path": "pkg/a.py", "raw": {"t": "def f(x=[]):\n    return f'hello'\n\nassert (1, 2)\n"}},
                {"path": "app/b.py", "raw": {"t": "import requests\nNAMES = set([1, 2])\nrequests.get('https://example.com')\nprint(f'abc')\n"}}]
        for inc in (["pixee:python/fix-assert-tuple", "pixee:python/remove-unnecessary-f-str", "pixee:python/fix-mutable-params"],
                    ["pixee:python/use-set-literal", "pixee:python/add-requests-timeouts", "pixee:python/remove-unnecessary-f-str"]):
            fixed.append({"kind": "unprocessable-file", "world_spec": {"files": good + BAD}, "include": inc, "plugins": False,
                          "path_include": None, "extra_findings": {}, "sched": {"seed": 0, "policy": "fifo", "line_p": 0.0},
                          "workers": None, "enum_seed": None})
        # two SAST codemods answering the same rule id (objects built from one result file are shared between them)
        by_rule = {}
        for c in G.codemods():
            if c["origin"] != "pixee":
                for rule in c.get("rules") or []:
                    by_rule.setdefault((c["origin"], rule), []).append(c["id"])
        for (_origin, _rule), cids in sorted(by_rule.items()):
            if len(cids) < 2:
                continue
            snips = [next((r["idx"] for r in W.triggering(c) if G.is_plain_snippet(r)), None) for c in cids]
            if None in snips:
                continue
            files = [{"path": f"app/v{j}.py", "snippets": [sn], "layout": {}} for j, sn in enumerate(snips)]
            for order in (cids, cids[::-1]):
                fixed.append({"kind": "sast-shared-rule-id", "world_spec": {"files": files}, "include": list(order), "plugins": False,
                              "path_include": None, "extra_findings": {}, "sched": {"seed": 0, "policy": "fifo", "line_p": 0.0},
                              "workers": None, "enum_seed": None})
        if tier != "thorough":
            return fixed
        # the whole default set on a world holding one snippet file per codemod
        import random

        rng = random.Random("c09-default-set")
        ids = [c for c in G.ids(origin="pixee", exclude_default=True)]
        files = []
        used = set()
        for c in ids:
            r = G.pick_snippet(rng, c)
            if r is not None:
                files.append({"path": G.rand_path(rng, used, ["pkg", "app", "src/lib", ""]), "snippets": [r["idx"]], "layout": {}})
        files += [{"path": "requirements.txt", "manifest": 0}]
        return fixed + [{"kind": "default-set", "world_spec": {"files": files}, "include": ids, "plugins": False, "path_include": None,
                         "extra_findings": {}, "sched": {"seed": 1, "policy": "fifo", "line_p": 0.0}, "workers": 4, "enum_seed": None}]

    def gen(self, rng, i, tier):
        r = rng.random()
        if r < 0.7:
            cids = gen_pairs(rng)
            used = set()
            files = []
            for _ in range(rng.randint(1, 5)):
                f = G.gen_py_file(rng, used, cids, n_snip=(2, 4) if rng.random() < 0.6 else (1, 2))
                if f:
                    files.append(f)
            if any(c in W.DEP_CODEMODS for c in cids) or rng.random() < 0.2:
                files += G.gen_manifests(rng, k=rng.choice([1, 1, 2, 3]))
            if rng.random() < 0.2:
                files.append({"path": G.rand_path(rng, used, ["pkg", "app", ""]), "raw": rng.choice(
                    [{"t": "def broken(:\n    return f'x'\n"}, {"b": "/v8AZGVmIGYoeD1bXSk6IHBhc3MK"}, {"t": "x = 1\x00\n"}])})
            exp = {"kind": "ff-seq", "world_spec": {"files": files}, "include": list(dict.fromkeys(cids)), "plugins": False,
                   "path_include": None, "extra_findings": {}}
        else:
            exp = G.gen_general(rng, kinds=("sast", "plugin", "mixed", "ff-dep"), max_codemods=4)
        if len(exp["include"]) < 2 or not exp["world_spec"]["files"]:
            return None
        exp["sched"] = G.rand_sched(rng, len(exp["world_spec"]["files"]))
        exp["workers"] = rng.choice([None, 2, 4])
        exp["enum_seed"] = rng.choice([None, rng.randrange(100)])
        return exp

    def execute(self, exp, ctx):
        world, meta = W.build_world(exp["world_spec"])
        base = {"hashseed": 0, "sched": exp["sched"], "enum_seed": exp.get("enum_seed"), "plugins": exp.get("plugins", False)}
        argv, results = G.general_argv(exp, meta, workers=exp.get("workers"))
        batch = ctx.run(dict(base, name="batch", world=dict(world, results=results), argv=argv))
        chain = []
        files = world["files"]
        for cid in exp["include"]:
            argv1, _ = G.general_argv(exp, meta, include=[cid], workers=exp.get("workers"))
            o = ctx.run(dict(base, name=f"chain:{cid}", world=dict(world, files=files, results=results), argv=argv1))
            chain.append(o)
            files = W.apply_changes(files, o["changed"])
        return {"batch": batch, "chain": chain, "chain_final": files, "orig": world["files"]}

    def oracle(self, exp, outcomes):
        v = []
        batch, chain = outcomes["batch"], outcomes["chain"]
        st_chain = [(o["status"], bool(o["exception"])) for o in chain]
        if (batch["status"], bool(batch["exception"])) != (0, False) or any(s != (0, False) for s in st_chain):
            bad_chain = [exp["include"][i] for i, s in enumerate(st_chain) if s != (0, False)]
            if ((batch["status"], bool(batch["exception"])) == (0, False)) != (not bad_chain):
                v.append({"clause": "exit-status", "key": f"C09:status-differs:{','.join(bad_chain[:2]) or 'batch'}",
                          "detail": {"batch": [batch["status"], batch["exception"]], "chain": st_chain}})
            return v
        final_batch = W.apply_changes(outcomes["orig"], batch["changed"])
        mnames = {f["path"]: W.manifests()[f["manifest"]]["name"] for f in exp["world_spec"]["files"] if "manifest" in f}
        manifest_only = None
        if final_batch != outcomes["chain_final"]:
            diff = sorted(f for f in set(final_batch) | set(outcomes["chain_final"]) if final_batch.get(f) != outcomes["chain_final"].get(f))
            culprits = self._culprits(exp, batch, chain)
            if all(f in mnames for f in diff):
                # a difference confined to dependency manifests is keyed by the manifest shape (the C14 input class)
                manifest_only = "+".join(sorted(mnames[f] for f in diff))
                v.append({"clause": "final-tree", "key": f"C09:manifest-differs:{manifest_only}",
                          "detail": {"files": diff[:5], "include": exp["include"], "codemods": culprits}})
            else:
                v.append({"clause": "final-tree", "key": f"C09:tree-differs:{culprits}", "detail": {"files": diff[:5], "include": exp["include"]}})
        rb = results_by_codemod(batch["report"])
        for i, cid in enumerate(exp["include"]):
            a = (rb.get(cid) or [None])[0]
            c = (results_by_codemod(chain[i]["report"]).get(cid) or [None])[0]
            if a != c:
                fields = sorted(k for k in set(a or {}) | set(c or {}) if (a or {}).get(k) != (c or {}).get(k))
                pa = [x.get("path") for x in (a or {}).get("changeset", [])]
                pc = [x.get("path") for x in (c or {}).get("changeset", [])]
                ca = [x for x in (a or {}).get("changeset", []) if x.get("path") not in mnames]
                cc = [x for x in (c or {}).get("changeset", []) if x.get("path") not in mnames]
                if manifest_only and ca == cc and set(fields) <= {"changeset", "description"}:
                    break  # the same manifest difference seen through the report (already reported above)
                v.append({"clause": "per-codemod-result", "key": f"C09:result-differs:{cid}:{','.join(fields)}",
                          "detail": {"codemod": cid, "position": i, "fields": fields, "include": exp["include"],
                                     "batch_paths": pa, "chain_paths": pc}})
                break
        return v

    @staticmethod
    def _culprits(exp, batch, chain):
        rb = results_by_codemod(batch["report"])
        out = []
        for i, cid in enumerate(exp["include"]):
            a = (rb.get(cid) or [{}])[0]
            c = (results_by_codemod(chain[i]["report"]).get(cid) or [{}])[0]
            if a.get("changeset") != c.get("changeset"):
                out.append(cid)
        return ",".join(out[:2]) or "?"

    def nontrivial(self, exp, outcomes):
        return sum(1 for o in outcomes["chain"] if o["changed"]) >= 2

    def shrink(self, exp):
        inc = exp["include"]
        if len(inc) > 2:
            for j in range(len(inc)):
                c = copy.deepcopy(exp)
                del c["include"][j]
                yield c
        fs = exp["world_spec"]["files"]
        if len(fs) > 1:
            for j in range(len(fs)):
                c = copy.deepcopy(exp)
                del c["world_spec"]["files"][j]
                yield c
        for j, f in enumerate(fs):
            if len(f.get("snippets", [])) > 1:
                for k in range(len(f["snippets"])):
                    c = copy.deepcopy(exp)
                    del c["world_spec"]["files"][j]["snippets"][k]
                    yield c
            if f.get("layout"):
                c = copy.deepcopy(exp)
                c["world_spec"]["files"][j]["layout"] = {}
                yield c
        if exp["sched"].get("policy") != "fifo":
            c = copy.deepcopy(exp)
            c["sched"] = {"seed": 0, "policy": "fifo", "line_p": 0.0}
            c["workers"] = None
            c["enum_seed"] = None
            yield c

    def sample(self, exp, outcomes):
        return {"kind": exp["kind"], "include": exp["include"], "files": [{k: v for k, v in f.items() if k != "raw"} for f in exp["world_spec"]["files"]][:5],
                "chain_changed": [sorted(o["changed"]) for o in outcomes["chain"]], "batch_changed": sorted(outcomes["batch"]["changed"])}


CHECK = C09()
