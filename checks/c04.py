"""C04 - --dry-run never touches the project and predicts the real run (paired dry/real execution,
mutating-call trace at the file seam)."""
import copy

from simbox import gen as G
from simbox import world as W
from simbox.framework import Check
from simbox.normalize import norm_report
from simbox.seams import MUTATING  # noqa: F401  (documentation: the set of mutating ops)


class C04(Check):
    id = "C04"
    level = "exploration"
    rule = ("experiment = generated project (python sources from the harvested corpus in layout variants, txt/html/xml files "
            "for the regex/XML plugin pipelines, 0-3 dependency manifests of the four kinds) x codemod list (single codemod "
            "in ~2/3 of the experiments: every registry codemod appears in thorough) x random schedule/workers; executions = "
            "dry run + real run on a copy; non-trivial = the real run changed at least one file; distinct = by experiment digest")
    assumptions = [
        "report equality (clause iii) is checked for single-codemod experiments only, as the statement says",
        "mutations are observed at the Python I/O seam plus an mtime/inode snapshot that catches anything bypassing it",
    ]
    budgets = {"quick": {"n": 70, "wall": 170}, "thorough": {"n": 900, "wall": 1500}}

    def extra_batches(self, tier):
        """every manifest shape of the corpus, alone and after a store that cannot take the dependency, with a
        dependency-adding codemod (the four writers and the store fall-through each consult dry_run on their own)"""
        import random

        exps = []
        ms = W.manifests()
        blockers = [m["idx"] for m in ms if m["name"] in ("pyproject-no-deps-key", "setuppy-no-install-requires", "setupcfg-no-options")]
        for m in ms:
            rng = random.Random(f"c04-fixed-{m['idx']}")
            cid = rng.choice(["pixee:python/url-sandbox", "pixee:python/use-defusedxml", "pixee:python/harden-pickle-load"])
            r = G.pick_snippet(rng, cid)
            files = [{"path": "pkg/app.py", "snippets": [r["idx"]], "layout": {}}, {"path": "sub/" + m["file"] if m["file"] != "setup.py" else m["file"], "manifest": m["idx"]}]
            if m["idx"] % 2:
                b = ms[blockers[m["idx"] % len(blockers)]]
                if b["file"] != m["file"]:
                    files.append({"path": b["file"], "manifest": b["idx"]})
            exps.append({"kind": "corpus:" + m["file"], "world_spec": {"files": files}, "include": [cid], "plugins": False, "path_include": None,
                         "extra_findings": {}, "single": True, "sched": {"seed": m["idx"], "policy": "fifo", "line_p": 0.0}, "workers": None,
                         "enum_seed": None})
        # a codemod that reports a change while rendering identical code (no diff): dry and real must agree on whether that is
        # a changeset; and setup.py / hard-linked files are left to the generated worlds
        base = {"plugins": False, "path_include": None, "extra_findings": {}, "single": True, "sched": {"seed": 0, "policy": "fifo", "line_p": 0.0},
                "workers": None, "enum_seed": None}
        exps.append(dict(base, kind="fixed:change-without-diff", include=["pixee:python/remove-future-imports"],
                         world_spec={"files": [{"path": "pkg/annotated.py", "raw": {"t": "from __future__ import annotations\n\n\ndef f(x: int) -> int:\n    return x\n"}},
                                               {"path": "pkg/old.py", "raw": {"t": "from __future__ import print_function\n\nprint(1)\n"}}]}))
        # setup.py rewritten as a source file AND updated as the manifest by the same codemod
        setup_src = ('import pickle\nfrom setuptools import setup\n\n\ndef load(f):\n    return pickle.load(f)\n\n\ndef dump(o, f):\n    pickle.dump(o, f)\n\n\n'
                     'setup(\n    name="x",\n    install_requires=[\n        "requests",\n    ],\n)\n')
        exps.append(dict(base, kind="fixed:setup-py-source-and-manifest", include=["pixee:python/harden-pickle-load"],
                         world_spec={"files": [{"path": "setup.py", "raw": {"t": setup_src}}]}))
        exps.append(dict(base, kind="fixed:change-without-diff", include=["pixee:python/use-walrus-if"],
                         world_spec={"files": [{"path": "pkg/w.py", "raw": {"t": "import re\n\n\ndef f(s):\n    m = re.match('a', s)\n    if m:\n        return m\n    m = None\n    return m\n"}}]}))
        return exps

    def gen(self, rng, i, tier):
        single = rng.random() < 0.66
        exp = G.gen_general(rng, max_codemods=1 if single else 4)
        if not exp["world_spec"]["files"] or not exp["include"]:
            return None
        if single:
            exp["include"] = exp["include"][:1]
        if tier == "thorough" and i < 101:
            # walk the whole registry once
            cid = G.codemods()[i]["id"]
            r = G.pick_snippet(rng, cid, plain=False)
            if r is not None:
                used = set()
                if G.is_plain_snippet(r):
                    path = G.rand_path(rng, used)
                else:
                    path = "proj/" + r["relpath"]
                lay = G.rand_layout(rng, sast=bool(r.get("tool")))
                lay.pop("wrap", None)
                lay.pop("bom", None)
                files = [{"path": path, "snippets": [r["idx"]], "layout": lay}] + G.gen_manifests(rng, k=rng.choice([0, 1, 2]))
                exp = {"kind": "registry-walk", "world_spec": {"files": files}, "include": [cid], "plugins": False,
                       "path_include": None, "extra_findings": {}}
        exp["single"] = len(exp["include"]) == 1
        exp["sched"] = G.rand_sched(rng, len(exp["world_spec"]["files"]))
        exp["workers"] = rng.choice([None, 1, 2, 4])
        exp["enum_seed"] = rng.choice([None, rng.randrange(100)])
        return exp

    def execute(self, exp, ctx):
        world, meta = W.build_world(exp["world_spec"])
        argv_dry, results = G.general_argv(exp, meta, dry_run=True, workers=exp.get("workers"))
        argv_real, _ = G.general_argv(exp, meta, dry_run=False, workers=exp.get("workers"))
        world["results"] = results
        base = {"world": world, "hashseed": 0, "sched": exp["sched"], "enum_seed": exp.get("enum_seed"), "plugins": exp.get("plugins", False)}
        dry, real = ctx.run_many([dict(base, name="dry", argv=argv_dry), dict(base, name="real", argv=argv_real)])
        return {"dry": dry, "real": real}

    def oracle(self, exp, outcomes):
        v = []
        dry, real = outcomes["dry"], outcomes["real"]
        inc = ",".join(exp["include"][:2])
        muts = [m for m in dry["mutations"] if m[1].startswith("<T>") or m[3] == "T"]
        if muts:
            v.append({"clause": "dry-run-mutating-event", "key": f"C04:mutating-event:{muts[0][0]}:{exp['kind']}",
                      "detail": {"events": muts[:5], "include": exp["include"]}})
        if dry["changed"] or dry["meta_only_changed"]:
            v.append({"clause": "dry-run-tree-changed", "key": f"C04:tree-changed:{exp['kind']}",
                      "detail": {"changed": sorted(dry["changed"])[:5], "meta_only": dry["meta_only_changed"][:5], "include": exp["include"]}})
        if dry["status"] != real["status"] or bool(dry["exception"]) != bool(real["exception"]):
            v.append({"clause": "dry-real-status-differs", "key": f"C04:status-differs:{exp['kind']}",
                      "detail": {"dry": [dry["status"], dry["exception"]], "real": [real["status"], real["exception"]], "include": exp["include"]}})
        elif exp.get("single"):
            a = norm_report(dry["report"], ("--dry-run",))
            b = norm_report(real["report"], ("--dry-run",))
            if a != b:
                fields = []
                if a and b:
                    for ra, rb in zip(a.get("results", []), b.get("results", [])):
                        fields += [k for k in set(ra) | set(rb) if ra.get(k) != rb.get(k)]
                v.append({"clause": "dry-report-differs", "key": f"C04:report-differs:{','.join(sorted(set(fields))) or 'run'}:{inc}" + (":" + exp["kind"][6:] if exp["kind"].startswith("fixed:") else ""),
                          "detail": {"include": exp["include"], "fields": sorted(set(fields))}})
        return v

    def nontrivial(self, exp, outcomes):
        return bool(outcomes["real"]["changed"])

    def shrink(self, exp):
        fs = exp["world_spec"]["files"]
        if len(exp["include"]) > 1:
            for j in range(len(exp["include"])):
                c = copy.deepcopy(exp)
                del c["include"][j]
                c["single"] = len(c["include"]) == 1
                yield c
        if len(fs) > 1:
            for j in range(len(fs)):
                c = copy.deepcopy(exp)
                del c["world_spec"]["files"][j]
                yield c
        for j, f in enumerate(fs):
            if len(f.get("snippets", [])) > 1:
                for k in range(len(f["snippets"])):
                    c = copy.deepcopy(exp)
                    del c["world_spec"]["files"][j]["snippets"][k]
                    yield c
            if f.get("layout"):
                c = copy.deepcopy(exp)
                c["world_spec"]["files"][j]["layout"] = {}
                yield c
        if exp["sched"].get("policy") != "fifo":
            c = copy.deepcopy(exp)
            c["sched"] = {"seed": 0, "policy": "fifo", "line_p": 0.0}
            c["workers"] = None
            yield c

    def sample(self, exp, outcomes):
        return {"kind": exp["kind"], "include": exp["include"], "files": [f["path"] for f in exp["world_spec"]["files"]],
                "real_changed": sorted(outcomes["real"]["changed"]), "dry_mutations": len(outcomes["dry"]["mutations"])}


CHECK = C04()
