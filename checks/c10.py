"""C10 - an unprocessable file is left intact, reported, and does not stop the run.
Fault enumeration: {fault kind} x {file position} x {codemod position} x {pipeline kind} on small
worlds (exhaustive grid), then seeded multi-fault combinations on larger worlds under random
schedules.  Differential oracle against the fault-free execution."""
import copy
import json

from simbox import gen as G
from simbox import world as W
from simbox.codetf_check import STRUCTURAL, check_report
from simbox.framework import Check
from simbox.normalize import results_by_codemod
from simbox.util import dec, enc

CONTENT_FAULTS = ["bad-utf8", "nul-bytes", "syntax-error", "empty", "latin1-cookie", "deep-chain"]
SEAM_FAULTS = ["vanish-before-read", "read-eio", "read-eacces", "transform-raise", "node-raise", "codegen-raise"]
XML_FAULTS = ["xml-malformed", "xml-truncated", "bad-utf8", "empty"]

PIPELINES = {
    "detector-less": ["pixee:python/remove-unnecessary-f-str", "pixee:python/fix-mutable-params"],
    "semgrep-rule": ["pixee:python/secure-random", "pixee:python/harden-pyyaml"],
    "sonar": ["sonar:python/fix-assert-tuple", "sonar:python/exception-without-raise"],
    "semgrep-sarif": ["semgrep:python/django-secure-set-cookie", "semgrep:python/enable-jinja2-autoescape"],
    "defectdojo": ["defectdojo:python/avoid-insecure-deserialization", "defectdojo:python/django-secure-set-cookie"],
    "xml": ["verif:python/xml-attr", "verif:python/xml-newelem"],
}
XML_DOCS = [
    '<?xml version="1.0" encoding="utf-8"?>\n<config>\n  <session name="a"/>\n  <other>text</other>\n</config>\n',
    '<config>\n  <session secure="false">x</session>\n</config>\n',
    '<root>\n  <config>\n    <session/>\n  </config>\n</root>\n',
]
POS_NAMES = ["a_first", "m_middle", "z_last"]


def first_snip(cid, k=0):
    c = [r for r in W.triggering(cid) if G.is_plain_snippet(r)]
    if cid == "defectdojo:python/avoid-insecure-deserialization":
        # its pipeline chains two transformers (yaml, pickle): prefer inputs that make both act
        c.sort(key=lambda r: not ("pickle" in r["input"] and "yaml" in r["input"]))
    return c[k % len(c)]["idx"] if c else None


def _same_file(reported: str, rel: str) -> bool:
    """failedFiles entries are full paths of the (normalised) sandbox: <S>/T/<rel>.  Compare the whole relative path - a
    suffix test confuses `b.py` with `app/b.py`."""
    return reported == rel or reported.endswith("/T/" + rel)


def corrupt(kind, data: bytes) -> bytes:
    if kind == "bad-utf8":
        return data + b"\nx_bad = '\xff\xfe'\n"
    if kind == "nul-bytes":
        return data + b"\n\x00\x00\n"  # on a line of its own (inside a string literal libcst accepts NUL)
    if kind == "syntax-error":
        return data + b"\ndef broken(:\n    pass\n"
    if kind == "empty":
        return b""
    if kind == "latin1-cookie":
        return b"# -*- coding: latin-1 -*-\nx_l1 = '\xe9'\n" + data
    if kind == "deep-chain":
        # parses (the native parser is iterative here) but rendering / visiting it recurses past the interpreter's limit
        return data + b"\nx_deep = " + b" + ".join([b"1"] * 2500) + b"\n"
    if kind == "xml-malformed":
        return data.replace(b"</config>", b"</confg>")
    if kind == "xml-truncated":
        return data[: max(1, len(data) * 2 // 3)]
    raise ValueError(kind)


def grid_world(pipeline):
    """three ordinary files with triggers of both codemods"""
    cids = PIPELINES[pipeline]
    files = []
    if pipeline == "xml":
        for i, name in enumerate(["b_one.xml", "n_two.xml", "y_three.xml"]):
            files.append({"path": f"conf/{name}", "raw": {"t": XML_DOCS[i]}})
        return files
    names = ["b_one.py", "n_two.py", "y_three.py"]
    for i, name in enumerate(names):
        cid = cids[i % 2]
        sn = first_snip(cid, i // 2)
        lay = {"offset": i} if i else {}
        files.append({"path": f"pkg/{name}", "snippets": [sn], "layout": lay})
    return files


def is_sast_pipeline(p):
    return p in ("sonar", "semgrep-sarif", "defectdojo")


class C10(Check):
    id = "C10"
    level = "fault_enumeration"
    rule = ("grid (exhaustive): 6 pipeline kinds (detector-less, semgrep-detected, Sonar, Semgrep SARIF, DefectDojo, XML plugin) x "
            "{5 content faults x 3 file positions} + {5 seam faults (vanish before read, read EIO/EACCES, transformer raises, "
            "raise at j-th visited node) x 3 file positions x 2 codemod positions}; then seeded worlds of 3-8 files with 1-3 "
            "faults under random schedules/worker counts; each experiment = fault-free reference + faulted execution; "
            "non-trivial = a fault fired (or a content-bad file was present) and the reference changed at least one file; "
            "distinct = by experiment digest")
    assumptions = [
        "write errors on source files, process kill and semgrep failure are not injected (no listed property speaks about them)",
        "clause (3) 'others unchanged' is evaluated for sibling-independent codemods only",
        "a vanish is only scheduled before the addressed read",
    ]
    budgets = {"quick": {"n": 60, "wall": 170}, "thorough": {"n": 500, "wall": 1500}}

    # ---- generation -----------------------------------------------------------------
    def extra_batches(self, tier):
        exps = []
        for p in PIPELINES:
            cf = XML_FAULTS if p == "xml" else CONTENT_FAULTS
            for fk in cf:
                for pos in range(3):
                    exps.append({"kind": f"grid:{p}:content", "pipeline": p, "files": grid_world(p), "include": PIPELINES[p],
                                 "content_faults": [{"kind": fk, "pos": pos, "donor": 0}], "seam_faults": [],
                                 "exec": {"sched": {"seed": pos, "policy": "fifo", "line_p": 0.0}, "workers": 1}})
            if p in ("detector-less", "sonar"):
                # a special file carrying a selectable name: opening it for reading never returns (bounded liveness; the seam
                # turns the open into SimHang instead of blocking the harness)
                for pos in range(2):
                    exps.append({"kind": f"grid:{p}:content", "pipeline": p, "files": grid_world(p), "include": PIPELINES[p],
                                 "content_faults": [{"kind": "fifo", "pos": pos, "donor": 0}], "seam_faults": [],
                                 "exec": {"sched": {"seed": pos, "policy": "fifo", "line_p": 0.0}, "workers": 1 + pos}})
            for fk in SEAM_FAULTS:
                if p == "xml" and fk in ("transform-raise", "node-raise", "codegen-raise"):
                    continue
                for pos in range(3):
                    for k in range(2):
                        nths = [1 if fk != "node-raise" else [1, 4, 12][pos]]
                        if fk == "codegen-raise":
                            nths = [0]  # every transformer of a chained pipeline hands back an unrenderable tree
                        if fk == "transform-raise" and p == "defectdojo":
                            nths.append(2)  # the second transformer of a chained pipeline raises after the first one acted
                        for nth in nths:
                            exps.append({"kind": f"grid:{p}:seam", "pipeline": p, "files": grid_world(p), "include": PIPELINES[p],
                                         "content_faults": [],
                                         "seam_faults": [{"kind": fk, "file_pos": pos, "codemod_index": k, "nth": nth}],
                                         "exec": {"sched": {"seed": pos * 2 + k, "policy": "fifo", "line_p": 0.0}, "workers": 1}})
        return exps

    def gen(self, rng, i, tier):
        p = rng.choice([x for x in PIPELINES if x != "xml"] + ["detector-less", "semgrep-rule"])
        used = set()
        files = []
        if is_sast_pipeline(p):
            pool = [c for c in G.ids(origin={"sonar": "sonar", "semgrep-sarif": "semgrep", "defectdojo": "defectdojo"}[p])
                    if first_snip(c) is not None and c not in W.SIBLING_DEPENDENT]
            cids = rng.sample(pool, min(len(pool), rng.randint(1, 3)))
            for c in cids:
                for _ in range(rng.randint(1, 2)):
                    f = G.gen_sast_file(rng, used, c, dirs=["pkg", "app", "src/lib"])
                    if f:
                        files.append(f)
        else:
            det = "none" if p == "detector-less" else "semgrep-rule"
            pool = [c for c in G.ids(origin="pixee", detector=det) if c not in W.SIBLING_DEPENDENT and first_snip(c) is not None]
            cids = rng.sample(pool, rng.randint(1, 3))
            for _ in range(rng.randint(3, 7)):
                f = G.gen_py_file(rng, used, cids, n_snip=(1, 2), dirs=["pkg", "app", "src/lib", ""])
                if f:
                    files.append(f)
        if len(files) < 2:
            return None
        nf = rng.randint(1, 3)
        content, seam = [], []
        for _ in range(nf):
            if rng.random() < 0.45:
                content.append({"kind": rng.choice(CONTENT_FAULTS), "pos": rng.randrange(3), "donor": rng.randrange(len(files))})
            else:
                fk = rng.choice(SEAM_FAULTS)
                seam.append({"kind": fk, "file_pos": rng.randrange(len(files)), "codemod_index": rng.randrange(len(cids)),
                             "nth": rng.choice([1, 1, 2]) if fk == "transform-raise" else (0 if fk == "codegen-raise" else 1 if fk != "node-raise" else rng.choice([1, 3, 9, 30]))})
        # at most one seam fault per file (keeps the narrow relaxation well defined)
        seen = set()
        seam = [s for s in seam if not (s["file_pos"] in seen or seen.add(s["file_pos"]))]
        return {"kind": f"random:{p}", "pipeline": p, "files": files, "include": cids, "content_faults": content,
                "seam_faults": seam, "exec": {"sched": G.rand_sched(rng, len(files)), "workers": rng.choice([1, 2, 3, 4, 8]),
                                              "enum_seed": rng.choice([None, rng.randrange(100)])}}

    # ---- execution ------------------------------------------------------------------
    def _build(self, exp):
        """-> (world_ref, world_fault, argv, seam fault plan, info)"""
        spec = {"files": copy.deepcopy(exp["files"])}
        world, meta = W.build_world(spec)
        paths = sorted(p for p, m in meta["files"].items() if m["kind"] in ("py",) or p.endswith(".xml"))
        bad = {}
        findings_extra = {}
        for j, cf in enumerate(exp["content_faults"]):
            donor_spec = exp["files"][cf["donor"] % len(exp["files"])]
            donor_path = donor_spec["path"]
            d = os_dirname(donor_path)
            ext = ".xml" if exp["pipeline"] == "xml" else ".py"
            name = (d + "/" if d else "") + f"{POS_NAMES[cf['pos']]}_bad{j}{ext}"
            data = corrupt(cf["kind"], dec(world["files"][donor_path])) if cf["kind"] != "fifo" else None
            bad[name] = {"data": data, "kind": cf["kind"]}
            # findings for the bad file: the donor's findings retargeted (line numbers preserved unless shifted)
            shift = 2 if cf["kind"] == "latin1-cookie" else 0
            for kind, lst in meta["findings"].items():
                for x in lst:
                    if x["file"] == donor_path:
                        nf = W._shift_results(copy.deepcopy(x["finding"]), shift, donor_path, name)
                        findings_extra.setdefault(kind, []).append({"file": name, "finding": nf})
        meta2 = copy.deepcopy(meta)
        for kind, lst in findings_extra.items():
            meta2["findings"].setdefault(kind, []).extend(lst)
        results, ropts = W.default_delivery(meta2)
        argv = ["<T>", "--output", "<O>/report.codetf", "--codemod-include", ",".join(exp["include"])] + ropts
        argv += ["--max-workers", str(exp["exec"].get("workers", 1))]
        if exp["pipeline"] == "xml":
            argv += ["--path-include", "*.xml,**/*.xml"]  # the default include patterns select *.py only
        world_ref = dict(world, results=results)
        wf_files = dict(world["files"])
        for name, b in bad.items():
            if b["data"] is not None:
                wf_files[name] = enc(b["data"])
        world_fault = dict(world, files=wf_files, results=results, fifos=sorted(n for n, b in bad.items() if b["data"] is None))
        plan = []
        seam_info = []
        seen_targets = set()
        for sf in exp["seam_faults"]:
            target = paths[sf["file_pos"] % len(paths)]
            if target in seen_targets:
                continue  # at most one seam fault per file: keeps the narrow relaxation well defined
            seen_targets.add(target)
            zp = "<T>/" + target
            op = {"vanish-before-read": "open-read", "read-eio": "open-read", "read-eacces": "open-read",
                  "transform-raise": "transform", "node-raise": "node", "codegen-raise": "transform"}[sf["kind"]]
            plan.append({"op": op, "path": zp, "codemod_index": sf["codemod_index"], "nth": sf["nth"], "kind": sf["kind"]})
            seam_info.append({"file": target, "k": sf["codemod_index"], "kind": sf["kind"]})
        return world_ref, world_fault, argv, plan, {"bad": bad, "seam": seam_info, "meta": meta2, "paths": paths}

    def execute(self, exp, ctx):
        world_ref, world_fault, argv, plan, info = self._build(exp)
        ex = exp["exec"]
        base = {"argv": argv, "hashseed": 0, "sched": ex["sched"], "enum_seed": ex.get("enum_seed"),
                "plugins": exp["pipeline"] == "xml"}
        ref, flt = ctx.run_many([dict(base, name="ref", world=world_ref, faults=[]),
                                 dict(base, name="fault", world=world_fault, faults=plan)])
        for b in info["bad"].values():
            ctx.note_fault(b["kind"])
        return {"ref": ref, "fault": flt, "info": {"bad": {k: v["kind"] for k, v in info["bad"].items()}, "seam": info["seam"],
                                                   "findings": info["meta"]["findings"], "world_fault_files": world_fault["files"]}}

    # ---- oracle ---------------------------------------------------------------------
    def oracle(self, exp, outcomes):
        v = []
        ref, flt, info = outcomes["ref"], outcomes["fault"], outcomes["info"]
        pl = exp["pipeline"]
        tag = exp["kind"].split(":")[0]

        def add(clause, what, detail):
            v.append({"clause": clause, "key": f"C10:{clause}:{what}:{pl}", "detail": dict(detail, faults={"content": exp["content_faults"], "seam": exp["seam_faults"]})})

        if ref["status"] != 0 or ref["exception"]:
            return [{"clause": "reference-run-failed", "key": f"C10:reference-run-failed:{pl}",
                     "detail": {"status": ref["status"], "exception": ref["exception"]}}]
        kinds = sorted(set(info["bad"].values()) | {s["kind"] for s in info["seam"]})
        what = "+".join(kinds)
        # (4)/(5) run completes with exit 0 and a valid report
        if flt["exception"] or flt["status"] != 0:
            add("run-stopped", what, {"status": flt["status"], "exception": flt["exception"],
                                      "traceback_tail": (flt["traceback"] or "")[-600:]})
            return v
        vanished = {s["file"] for s in info["seam"] if s["kind"] == "vanish-before-read"}
        # "writes a valid report": schema + consistency with the run; content invariants that have nothing to do with the
        # fault (a codemod's own line numbering) are C15's business and are reported there
        probs = [p for p in check_report(flt, info["world_fault_files"])
                 if not (p[0] == "changeset-path-missing" and p[1].get("path") in vanished) and p[0] in STRUCTURAL]
        if probs:
            add("invalid-report", probs[0][0], {"problems": probs[:3]})
        rr = results_by_codemod(ref["report"])
        rf = results_by_codemod(flt["report"])
        ids = flt["codemod_ids"]
        # per-fault firing information (the plan and info["seam"] are in the same order)
        for s, st in zip(info["seam"], flt["stats"]["faults"]):
            s["fired"] = st["fired"]
        # (1) bad files untouched
        for name, kind in info["bad"].items():
            if name in flt["changed"]:
                add("bad-file-modified", kind, {"file": name})
            if any(w["path"] == "<T>/" + name for w in flt["writes"]):
                add("bad-file-written", kind, {"file": name})
        seam_cells = {}
        for s in info["seam"]:
            seam_cells[s["file"]] = s
            if not s.get("fired"):
                continue
            wr = [w for w in flt["writes"] if w["path"] == "<T>/" + s["file"] and w["ci"] == s["k"]]
            if wr:
                add("bad-file-written", s["kind"], {"file": s["file"], "codemod_index": s["k"]})
            if s["kind"] == "vanish-before-read" and s["file"] in flt["tree_after"]:
                add("vanished-file-recreated", s["kind"], {"file": s["file"]})
        # (2) selected => failed + unfixed
        sast = is_sast_pipeline(pl)
        for name, kind in info["bad"].items():
            for cid in ids:
                res = (rf.get(cid) or [{}])[0]
                failed = [x for x in (res.get("failedFiles") or []) if _same_file(x, name)]
                ci = G.info(cid)
                if kind == "fifo":
                    continue  # not a regular file: leaving it out of the selection and listing it as failed are both acceptable
                if kind == "empty" and pl != "xml":  # an empty module is valid Python; an empty XML document is not well-formed
                    if failed:
                        add("empty-file-reported-failed", kind, {"file": name, "codemod": cid})
                    continue
                selected = None
                nfind = 0
                if cid.startswith("verif:python/xml"):
                    selected = True
                elif ci and ci["detector"] == "none":
                    selected = True
                elif ci and ci["origin"] != "pixee":
                    rules = set(ci.get("rules") or [])
                    nfind = self._count_findings(info["findings"], name, rules)
                    selected = nfind > 0
                if selected:
                    if not failed:
                        add("bad-file-not-reported-failed", kind, {"file": name, "codemod": cid})
                    if sast:
                        unf = [u for u in (res.get("unfixedFindings") or []) if u.get("path") == name]
                        if len(unf) < nfind:
                            add("findings-not-reported-unfixed", kind, {"file": name, "codemod": cid, "findings": nfind, "unfixed": len(unf)})
        for s in info["seam"]:
            if not s.get("fired") or s["k"] >= len(ids):
                continue
            cid = ids[s["k"]]
            res = (rf.get(cid) or [{}])[0]
            failed = [x for x in (res.get("failedFiles") or []) if _same_file(x, s["file"])]
            if s["kind"] == "codegen-raise" and s["file"] not in [c.get("path") for c in ((rr.get(cid) or [{}])[0].get("changeset") or [])]:
                continue  # the unrenderable tree is only rendered when the codemod has a change to report for that file
            if not failed:
                add("bad-file-not-reported-failed", s["kind"], {"file": s["file"], "codemod": cid})
            if sast:
                ci = G.info(cid)
                nfind = self._count_findings(info["findings"], s["file"], set(ci.get("rules") or []))
                unf = [u for u in (res.get("unfixedFindings") or []) if u.get("path") == s["file"]]
                if len(unf) < nfind:
                    add("findings-not-reported-unfixed", s["kind"], {"file": s["file"], "codemod": cid, "findings": nfind, "unfixed": len(unf)})
        # (2b) a transient fault addressed at codemod k must not make LATER codemods treat the (perfectly readable) file as failed
        for s in info["seam"]:
            if not s.get("fired") or s["kind"] == "vanish-before-read":
                continue
            for j in range(s["k"] + 1, len(ids)):
                cid = ids[j]
                fa = [x for x in ((rf.get(cid) or [{}])[0].get("failedFiles") or []) if _same_file(x, s["file"])]
                fr = [x for x in ((rr.get(cid) or [{}])[0].get("failedFiles") or []) if _same_file(x, s["file"])]
                if fa and not fr:
                    add("fault-leaks-to-later-codemod", s["kind"], {"file": s["file"], "faulted_codemod_index": s["k"], "later_codemod": cid})
        # (3) everything else as in the reference
        excluded = set(info["bad"]) | {s["file"] for s in info["seam"] if s.get("fired")}
        for f in sorted(set(ref["changed"]) | set(flt["changed"])):
            if f in excluded:
                continue
            if ref["changed"].get(f) != flt["changed"].get(f):
                add("other-file-differs", what, {"file": f})
                break
        if ref["codemod_ids"] != ids:
            add("other-codemod-differs", what, {"ref": ref["codemod_ids"], "fault": ids})
        for ci_idx, cid in enumerate(ids):
            a = (rr.get(cid) or [{}])[0]
            b = (rf.get(cid) or [{}])[0]

            def others(res):
                def keep(path_rel):
                    if path_rel in info["bad"]:
                        return False
                    s = seam_cells.get(path_rel)
                    if s is not None and s.get("fired") and ci_idx >= s["k"]:
                        return False
                    return True

                return {
                    "changeset": [c for c in res.get("changeset", []) if keep(c.get("path"))],
                    "failed": [x for x in (res.get("failedFiles") or []) if keep(x[len("<S>/T/"):] if x.startswith("<S>/T/") else x)],
                    "unfixed": [u for u in (res.get("unfixedFindings") or []) if keep(u.get("path"))],
                }

            if others(a) != others(b):
                oa, ob = others(a), others(b)
                diff = [k for k in oa if oa[k] != ob[k]]
                add("other-codemod-differs", what, {"codemod": cid, "fields": diff})
                break
        return v

    @staticmethod
    def _count_findings(findings, path, rules):
        n = 0
        for kind, lst in findings.items():
            for x in lst:
                if x["file"] != path:
                    continue
                f = x["finding"]
                if kind.startswith("sonar"):
                    rid = f.get("rule") or f.get("ruleKey")
                elif kind == "semgrep":
                    rid = f.get("ruleId")
                else:
                    rid = f.get("title")
                st = str(f.get("status", "OPEN")).lower()
                if rid in rules and st in ("open", "to_review"):
                    n += 1
        return n

    def nontrivial(self, exp, outcomes):
        flt = outcomes["fault"]
        fired = any(f["fired"] for f in flt["stats"]["faults"]) or bool(outcomes["info"]["bad"])
        return fired and bool(outcomes["ref"]["changed"])

    def shrink(self, exp):
        n = len(exp["content_faults"]) + len(exp["seam_faults"])
        if n > 1:
            for j in range(len(exp["content_faults"])):
                c = copy.deepcopy(exp)
                del c["content_faults"][j]
                yield c
            for j in range(len(exp["seam_faults"])):
                c = copy.deepcopy(exp)
                del c["seam_faults"][j]
                yield c
        if len(exp["include"]) > 1 and not exp["seam_faults"]:
            for j in range(len(exp["include"])):
                c = copy.deepcopy(exp)
                del c["include"][j]
                yield c
        if len(exp["files"]) > 1 and not exp["seam_faults"]:
            for j in range(len(exp["files"])):
                c = copy.deepcopy(exp)
                del c["files"][j]
                for cf in c["content_faults"]:
                    cf["donor"] = cf["donor"] % len(c["files"])
                yield c
        if exp["exec"].get("sched", {}).get("policy") != "fifo":
            c = copy.deepcopy(exp)
            c["exec"] = {"sched": {"seed": 0, "policy": "fifo", "line_p": 0.0}, "workers": 1}
            yield c

    def sample(self, exp, outcomes):
        return {"kind": exp["kind"], "include": exp["include"], "files": [f["path"] for f in exp["files"]],
                "content_faults": exp["content_faults"], "seam_faults": exp["seam_faults"],
                "fault_run": {"status": outcomes["fault"]["status"],
                              "failedFiles": {r["codemod"]: r.get("failedFiles") for r in outcomes["fault"]["report"]["results"]} if outcomes["fault"]["report"] else None,
                              "fired": outcomes["fault"]["stats"]["faults"]}}


def os_dirname(p):
    return p.rsplit("/", 1)[0] if "/" in p else ""


CHECK = C10()
