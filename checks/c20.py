"""C20 - the exit status tells the caller what happened (fault enumeration over the documented
failure conditions, alone and in pairs, incl. report-write faults injected at the file seam)."""
import copy
import json

from simbox import gen as G
from simbox import world as W
from simbox.framework import Check
from simbox.util import enc

DOC = {  # condition -> documented status
    "no-output": 0,  # a completed run that was not asked for a report
    "terminal": 0,
    "invalid-args": 3,
    "ai-env": 3,
    "missing-dir": 1,
    "missing-result-file": 1,
    "dup-sarif-tool": 1,
    "report-unwritable": 2,
}

INVALID_ARGS = [
    ["--bogus-option"],
    ["--output"],  # missing operand (placed last)
    ["--output-format", "yaml"],
    ["--log-format", "xml"],
    ["--max-workers", "two"],
    ["--codemod-include", "pixee:python/secure-random", "--codemod-exclude", "pixee:python/url-sandbox"],
    ["--codemod", "x"],  # ambiguous prefix
    ["--path", "x"],  # ambiguous prefix
    ["extra-positional"],
    ["--sarif"],
]
TERMINAL = [["--help"], ["--version"], ["--list"], ["--describe"], ["-h"]]
AI_ENVS = [
    {"CODEMODDER_AZURE_OPENAI_API_KEY": "", "CODEMODDER_AZURE_OPENAI_ENDPOINT": "https://x.invalid"},  # set but empty = unset
    {"CODEMODDER_AZURE_OPENAI_API_KEY": "k", "CODEMODDER_AZURE_OPENAI_ENDPOINT": ""},
    {"CODEMODDER_AZURE_LLAMA_API_KEY": "", "CODEMODDER_AZURE_LLAMA_ENDPOINT": "https://x.invalid"},
    {"CODEMODDER_AZURE_LLAMA_API_KEY": "k", "CODEMODDER_AZURE_LLAMA_ENDPOINT": ""},
    {"CODEMODDER_AZURE_OPENAI_API_KEY": "k"},
    {"CODEMODDER_AZURE_OPENAI_ENDPOINT": "https://x.invalid"},
    {"CODEMODDER_AZURE_LLAMA_API_KEY": "k"},
    {"CODEMODDER_AZURE_LLAMA_ENDPOINT": "https://x.invalid"},
]
# Fully configured clients are NOT generated: in this sandbox constructing openai.OpenAI / AzureOpenAI raises
# TypeError(proxies) from an openai/httpx version mismatch of the environment, unrelated to the code under test.
AI_OK_ENVS = [{}, {"CODEMODDER_AZURE_OPENAI_API_KEY": "", "CODEMODDER_AZURE_OPENAI_ENDPOINT": ""},
              {"CODEMODDER_AZURE_LLAMA_API_KEY": "", "CODEMODDER_AZURE_LLAMA_ENDPOINT": ""}, {"CODEMODDER_OPENAI_API_KEY": ""},
              {"CODEMODDER_AZURE_OPENAI_API_KEY": ""}, {"CODEMODDER_AZURE_LLAMA_ENDPOINT": ""}]  # set-but-empty alone = unset
RESULT_OPTS = ["--sarif", "--sonar-issues-json", "--sonar-hotspots-json", "--defectdojo-findings-json", "--contrast-vulnerabilities-xml"]
REPORT_FAULTS = ["enoent-parent", "eisdir", "open-eacces", "open-erofs", "open-enospc", "enospc-on-write", "short-write", "eio-on-write", "enospc-on-close"]

SARIF_SEMGREP = {"version": "2.1.0", "runs": [{"tool": {"driver": {"name": "Semgrep OSS"}}, "results": []}]}
SARIF_CODEQL = {"version": "2.1.0", "runs": [{"tool": {"driver": {"name": "CodeQL"}}, "results": []}]}

SARIF_MERGED = {"version": "2.1.0", "runs": [SARIF_SEMGREP["runs"][0], SARIF_CODEQL["runs"][0]]}  # one export holding both tools
SARIF_SEMGREP_B = {"version": "2.1.0", "runs": [{"tool": {"driver": {"name": "Semgrep OSS"}}, "results": [], "properties": {"n": 2}}]}
DUP_SARIF = [[SARIF_SEMGREP, SARIF_SEMGREP], [SARIF_CODEQL, SARIF_CODEQL], [SARIF_SEMGREP, SARIF_SEMGREP_B], [SARIF_MERGED, SARIF_SEMGREP],
             [SARIF_MERGED, SARIF_CODEQL], [SARIF_SEMGREP, SARIF_MERGED], [SARIF_CODEQL, SARIF_MERGED], [SARIF_CODEQL, SARIF_SEMGREP, SARIF_CODEQL]]
SONAR_EMPTY = {"issues": [], "hotspots": []}
DD_EMPTY = {"results": []}
# (option, file names) groups; names starting with "missing" are not created
MISSING_RESULT = [[(o, ["missing.json"])] for o in RESULT_OPTS] + [
    [("--sarif", ["ok.sarif", "missing.sarif"])],
    [("--sonar-issues-json", ["sonar_a.json", "missing.json"])],
    [("--sonar-hotspots-json", ["missing.json", "sonar_h.json"])],
    [("--defectdojo-findings-json", ["dd_a.json", "missing.json"])],
    [("--sonar-issues-json", ["sonar_a.json"]), ("--sonar-hotspots-json", ["missing.json"])],
    [("--sonar-issues-json", ["missing.json"]), ("--sonar-hotspots-json", ["sonar_h.json"])],
    [("--sonar-issues-json", ["sonar_a.json", "sonar_b.json"]), ("--sonar-hotspots-json", ["sonar_h.json", "missing_h.json"])],
    [("--sonar-hotspots-json", ["sonar_h.json"]), ("--defectdojo-findings-json", ["missing.json"])],
    [("--defectdojo-findings-json", ["dd_a.json"]), ("--sarif", ["missing.sarif"])],
    # an empty path names no file (os.path.exists("") is False; Path("") would be the current directory)
    [("--sonar-issues-json", [""])],
    [("--sonar-issues-json", ["sonar_a.json", ""])],
    [("--defectdojo-findings-json", ["", "dd_a.json"])],
]

FILES = {
    "pkg/a.py": "def f(x=[]):\n    return f'hello'\n",
    "pkg/b.py": "import os\nprint(f'abc')\n",
}


def make_exp(conds, rng):
    """conds: list of (condition, variant)"""
    exp = {"conds": [list(c) for c in conds], "env": {}, "faults": [], "results": {}, "kind": "+".join(sorted(c for c, _ in conds)) or "completed"}
    argv_pre = []
    argv_post = []
    directory = "<T>"
    output = "<O>/report.codetf"
    report_path = "<O>/report.codetf"
    extra_dirs = []
    for c, var in conds:
        if c == "terminal":
            argv_pre += TERMINAL[var]
        elif c == "invalid-args":
            argv_post += INVALID_ARGS[var]
        elif c == "ai-env":
            exp["env"].update(AI_ENVS[var])
        elif c == "no-output":
            pass
        elif c == "missing-dir":
            directory = ["<S>/does-not-exist", "", "<S>/T/pkg/nope"][var]  # "" = an unset shell variable
        elif c == "missing-result-file":
            for opt, names in MISSING_RESULT[var]:
                for n in names:
                    if n and not n.startswith("missing"):
                        exp["results"][n] = enc(json.dumps(SARIF_CODEQL if n.endswith(".sarif") else SONAR_EMPTY if n.startswith("sonar") else DD_EMPTY).encode())
                argv_pre += [opt, ",".join("<R>/" + n if n else "" for n in names)]
        elif c == "dup-sarif-tool":
            names = []
            for j, doc in enumerate(DUP_SARIF[var]):
                exp["results"][f"s{j + 1}.sarif"] = enc(json.dumps(doc).encode())
                names.append(f"<R>/s{j + 1}.sarif")
            argv_pre += ["--sarif", ",".join(names)]
        elif c == "report-unwritable":
            k = REPORT_FAULTS[var]
            if k == "enoent-parent":
                output = report_path = "<O>/no/such/dir/report.codetf"
            elif k == "eisdir":
                output = report_path = "<O>/adir"
                extra_dirs.append("O/adir")
            elif k.startswith("open-"):
                exp["faults"].append({"op": "open-write", "path": "<O>/report.codetf", "kind": k})
            else:
                exp["faults"].append({"op": "write", "path": "<O>/report.codetf", "kind": k})
    if not any(c == "ai-env" for c, _ in conds) and rng is not None:
        exp["env"].update(rng.choice(AI_OK_ENVS))
    argv = [directory] + argv_pre
    no_output = (rng is not None and rng.random() < 0.12 and not any(c == "report-unwritable" for c, _ in conds)) or conds == [("no-output", 0)]
    if output is not None and not no_output:
        argv += ["--output", output]
    argv += ["--codemod-include", "pixee:python/remove-unnecessary-f-str,pixee:python/fix-mutable-params"]
    if any(c == "invalid-args" and INVALID_ARGS[v][0] == "--codemod-include" for c, v in conds):
        argv = [a for a in argv]  # keep; the conflict is include + exclude
        # remove our own include to let the variant provide both
        i = argv.index("--codemod-include")
        del argv[i:i + 2]
    if rng is not None:
        if rng.random() < 0.3:
            argv += ["--dry-run"]
        if rng.random() < 0.3:
            argv += ["--verbose"]
        if rng.random() < 0.3:
            argv += ["--max-workers", str(rng.choice([1, 2, 4]))]
        if rng.random() < 0.2:
            argv += ["--log-format", "json", "--project-name", "proj"]
        if rng.random() < 0.25 and "--sarif" not in argv + argv_post:  # a repeated option would override the first
            # a valid, harmless result file
            exp["results"]["ok.sarif"] = enc(json.dumps(SARIF_CODEQL).encode())
            argv += ["--sarif", "<R>/ok.sarif"]
    argv += argv_post
    exp["argv"] = argv
    exp["report_path"] = report_path
    exp["extra_dirs_S"] = extra_dirs
    exp["sched"] = G.rand_sched(rng, 2) if rng is not None else {"seed": 0, "policy": "fifo", "line_p": 0.0}
    exp["bad_file"] = bool(rng is not None and rng.random() < 0.3) or (rng is None and len(conds) == 0)
    return exp


class C20(Check):
    id = "C20"
    level = "fault_enumeration"
    rule = ("every documented failure condition (terminal options; 10 invalid/conflicting/ambiguous argument shapes; "
            "8 half-configured AI-client environments (incl. set-but-empty variables); missing target; 4 missing result-file options; duplicate SARIF "
            "tool; 9 report-write fault kinds: missing parent, directory, EACCES/EROFS/ENOSPC at open, ENOSPC/short "
            "write/EIO at write, ENOSPC at close/flush) alone (exhaustive), then seeded pairs, plus completed runs; other options random; "
            "non-trivial = at least one condition applies or the run changed a file; distinct = by experiment digest")
    assumptions = [
        "process boundary simulated as main()'s contract: run(argv) return value or SystemExit code; an escaping exception = status 1",
        "where two conditions apply the oracle accepts either documented status (the statement fixes no precedence)",
        "non-positive --max-workers is not generated (the statement does not classify it)",
    ]
    budgets = {"quick": {"n": 60, "wall": 150}, "thorough": {"n": 600, "wall": 900}}

    def all_single(self):
        out = [("terminal", i) for i in range(len(TERMINAL))]
        out += [("invalid-args", i) for i in range(len(INVALID_ARGS))]
        out += [("ai-env", i) for i in range(len(AI_ENVS))]
        out += [("missing-dir", i) for i in range(3)]
        out += [("no-output", 0)]
        out += [("missing-result-file", i) for i in range(len(MISSING_RESULT))]
        out += [("dup-sarif-tool", i) for i in range(len(DUP_SARIF))]
        out += [("report-unwritable", i) for i in range(len(REPORT_FAULTS))]
        return out

    def extra_batches(self, tier):
        exps = [make_exp([], None)]
        for c in self.all_single():
            exps.append(make_exp([c], None))
        if tier == "thorough":
            import itertools

            s = self.all_single()
            for a, b in itertools.combinations(s, 2):
                if a[0] != b[0]:
                    exps.append(make_exp([a, b], None))
        return exps

    def gen(self, rng, i, tier):
        s = self.all_single()
        r = rng.random()
        if r < 0.15:
            conds = []
        elif r < 0.45:
            conds = [rng.choice(s)]
        else:
            a = rng.choice(s)
            b = rng.choice([x for x in s if x[0] != a[0]])
            conds = [a, b]
        return make_exp(conds, rng)

    def execute(self, exp, ctx):
        files = dict(FILES)
        if exp.get("bad_file"):
            files["pkg/broken.py"] = "def broken(:\n    pass\n"  # a completed run may have failed files: still status 0
        world = {"files": {k: enc(v.encode()) for k, v in files.items()}, "results": exp["results"],
                 "extra_dirs_S": exp.get("extra_dirs_S", [])}
        spec = {"name": "c20", "world": world, "argv": exp["argv"], "env": exp["env"], "faults": exp["faults"],
                "report_path": exp["report_path"], "sched": exp["sched"], "hashseed": 0}
        return [ctx.run(spec)]

    def oracle(self, exp, outcomes):
        o = outcomes[0]
        conds = [c for c, _ in exp["conds"]]
        status = o["status"]
        if o["exception"]:
            status = 1
        allowed = sorted({DOC[c] for c in conds}) if conds else [0]
        v = []
        label = "+".join(sorted(conds)) or "completed"
        variants = ",".join(f"{c}#{i}" for c, i in exp["conds"])
        if status not in allowed:
            v.append({"clause": "status", "key": f"C20:status:{label}:got{status}",
                      "detail": {"conditions": variants, "allowed": allowed, "status": o["status"], "exception": o["exception"],
                                 "argv": exp["argv"], "env": sorted(exp["env"]), "faults": exp["faults"],
                                 "stderr_tail": (o["stderr"] or "")[-400:]}})
        complete = o["report_present"] and o["report"] is not None and isinstance(o["report"], dict) and "results" in o["report"]
        if status != 0 and complete:
            v.append({"clause": "nonzero-implies-no-report", "key": f"C20:nonzero-with-report:{label}",
                      "detail": {"conditions": variants, "status": status}})
        has_output = "--output" in exp["argv"] and exp["argv"][-1] != "--output"
        if status == 0 and has_output and "terminal" not in conds and not complete:
            v.append({"clause": "zero-implies-report", "key": f"C20:zero-without-report:{label}",
                      "detail": {"conditions": variants, "report_present": o["report_present"], "report_error": o["report_error"],
                                 "faults": exp["faults"], "report_path": exp["report_path"]}})
        return v

    def nontrivial(self, exp, outcomes):
        return bool(exp["conds"]) or bool(outcomes[0]["changed"])

    def shrink(self, exp):
        if len(exp["conds"]) > 1:
            for j in range(len(exp["conds"])):
                c = [tuple(x) for k, x in enumerate(exp["conds"]) if k != j]
                yield make_exp(c, None)
        else:
            c = make_exp([tuple(x) for x in exp["conds"]], None)
            if c["argv"] != exp["argv"] or c["env"] != exp["env"]:
                yield c

    def sample(self, exp, outcomes):
        return {"conditions": exp["conds"], "argv": exp["argv"], "env": sorted(exp["env"]), "faults": exp["faults"],
                "status": outcomes[0]["status"], "report_present": outcomes[0]["report_present"]}


CHECK = C20()
