"""C12 - no finding is lost or altered between the tool result files and the codemods.
(a) model-based merge check: generated families of result documents, operation sequences over
    `|`, `|=` and the repository's accumulation loops, compared after every operation with a
    multiset reference model (conservation + exactly-once);
(b) end-to-end delivery simulation: the same findings split / reordered / mixed with decoys over
    several result files must fix exactly the same sites as one clean delivery."""
import collections
import copy
import json
import os

from simbox import gen as G
from simbox import world as W
from simbox.framework import Check
from simbox.normalize import results_by_codemod
from simbox.util import enc

FILES = ["pkg/a.py", "pkg/b.py", "app/c.py", "d.py", ".ci/deploy.py"]
SONAR_RULES = ["python:S1716", "python:S5905", "pythonsecurity:S3649", "python:S2245"]
SARIF_RULES = ["python.lang.r1.r1", "python.django.security.r2.r2", "py/r3", "r4"]
DD_RULES = ["python.django.security.audit.avoid-insecure-deserialization.avoid-insecure-deserialization", "dd.rule.two", "dd.rule.three"]


# ---- document generators + independent reference extraction ------------------------------------
def gen_sonar_doc(rng, uid):
    doc = {}
    keys = rng.choice([["issues"], ["hotspots"], ["issues", "hotspots"], ["issues"], []])
    for k in keys:
        lst = []
        for _ in range(rng.randint(0, 4)):
            uid[0] += 1
            f = {"key": f"AX-{uid[0]}", "status": rng.choice(["OPEN", "OPEN", "TO_REVIEW", "RESOLVED", "CLOSED", "REVIEWED", "open"]),
                 "component": rng.choice(["proj:", "", "org_proj:", "org.acme:backend:", "my-org:team:service:"]) + rng.choice(FILES), "message": f"msg {uid[0]}"}
            f["rule" if k == "issues" else "ruleKey"] = rng.choice(SONAR_RULES)
            if rng.random() < 0.9:
                l = rng.randint(1, 30)
                f["textRange"] = {"startLine": l, "endLine": l + rng.choice([0, 0, 1]), "startOffset": rng.randint(0, 20), "endOffset": rng.randint(21, 60)}
            if rng.random() < 0.2:
                f["flows"] = [{"locations": [{"component": rng.choice(["proj:", "org.acme:backend:"]) + rng.choice(FILES), "textRange": {"startLine": 1, "endLine": 1, "startOffset": 0, "endOffset": 3}}]}]
            lst.append(f)
        doc[k] = lst
    if rng.random() < 0.1:
        doc.setdefault("issues", None)
    return doc


def ref_sonar(doc):
    out = collections.Counter()
    for f in (doc.get("issues") or []) + (doc.get("hotspots") or []):
        if str(f.get("status", "")).lower() not in ("open", "to_review"):
            continue
        tr = f.get("textRange")
        if not tr:
            continue
        rule = f.get("rule") or f.get("ruleKey")
        out[(rule, f["component"].split(":")[-1], tr["startLine"], tr["startOffset"], tr["endLine"], tr["endOffset"], f.get("key", rule))] += 1
    return out


def gen_sarif_doc(rng, uid, own_tool):
    runs = []
    for _ in range(rng.randint(1, 3)):
        tool = rng.choice([own_tool, own_tool, "foreign"])
        name = {"semgrep": "Semgrep OSS", "codeql": "CodeQL", "foreign": "OtherScanner"}[tool]
        ext_rules = [{"id": r} for r in SARIF_RULES]
        results = []
        for _ in range(rng.randint(0, 4)):
            uid[0] += 1
            # a foreign tool may well use a rule id our tool also has: its results still are not ours
            rid = rng.choice(SARIF_RULES) if tool != "foreign" or rng.random() < 0.3 else "foreign/" + rng.choice(["x", "y"])
            l = uid[0]  # unique line -> every finding is attributable
            region = {"startLine": l, "startColumn": rng.randint(1, 9), "endLine": l, "endColumn": rng.randint(10, 40)}
            if own_tool == "codeql" and rng.random() < 0.2:
                region.pop("endLine")
                region.pop("endColumn")
            if own_tool == "codeql" and rng.random() < 0.1:
                region = None  # a result for the whole file
            res = {"message": {"text": f"m{uid[0]}"}, "locations": [{"physicalLocation": {"artifactLocation": {"uri": ("./" if rng.random() < 0.15 else "") + rng.choice(FILES)}, "region": region}}]}
            if region is None:
                del res["locations"][0]["physicalLocation"]["region"]
            elif rng.random() < 0.2:
                # one result, several locations: in the same file and / or in another one
                for _ in range(rng.randint(1, 2)):
                    uid[0] += 1
                    res["locations"].append({"physicalLocation": {
                        "artifactLocation": {"uri": res["locations"][0]["physicalLocation"]["artifactLocation"]["uri"] if rng.random() < 0.5 else rng.choice(FILES)},
                        "region": {"startLine": uid[0], "startColumn": 1, "endLine": uid[0], "endColumn": 9}}})
            if tool != "foreign" and rng.random() < 0.25:
                res["rule"] = {"toolComponent": {"index": 0}, "index": SARIF_RULES.index(rid)}
            else:
                res["ruleId"] = rid
            results.append(res)
        runs.append({"tool": {"driver": {"name": name}, "extensions": [{"rules": ext_rules}]}, "results": results})
    return {"version": "2.1.0", "runs": runs}


def ref_sarif(doc, own_tool):
    out = collections.Counter()
    for run in doc.get("runs", []):
        name = run["tool"]["driver"]["name"]
        own = ("semgrep" in name.lower()) if own_tool == "semgrep" else ("CodeQL" in name)
        if not own:
            continue
        for res in run.get("results", []):
            rid = res.get("ruleId") or run["tool"]["extensions"][res["rule"]["toolComponent"]["index"]]["rules"][res["rule"]["index"]]["id"]
            for loc in res.get("locations", []):
                pl = loc["physicalLocation"]
                rg = pl.get("region") or {}
                sl = rg.get("startLine", 0)
                sc = rg.get("startColumn", -1 if own_tool == "semgrep" else None)
                out[(rid, os.path.normpath(pl["artifactLocation"]["uri"]), sl, sc, rg.get("endLine", sl), rg.get("endColumn", sc), rid)] += 1
    return out


def gen_dd_doc(rng, uid):
    res = []
    for _ in range(rng.randint(0, 5)):
        uid[0] += 1
        res.append({"id": uid[0], "title": rng.choice(DD_RULES), "file_path": rng.choice(FILES), "line": rng.randint(1, 40)})
    return {"results": res}


def ref_dd(doc):
    out = collections.Counter()
    for r in doc.get("results") or []:
        out[(r["title"], r["file_path"], r["line"], -1, r["line"], -1, str(r["id"]))] += 1
    return out


def impl_counter(dump):
    c = collections.Counter()
    for rule, f, sl, sc, el, ec, fid, frule in dump:
        c[(rule, f, sl, sc, el, ec, fid)] += 1
    return c


def _norm(c):
    """None columns and -1 sentinels compare equal (the formats without columns use a sentinel)"""
    out = collections.Counter()
    for (rule, f, sl, sc, el, ec, fid), n in c.items():
        out[(rule, f, sl, -1 if sc is None else sc, el, -1 if ec is None else ec, str(fid))] += n
    return out


class C12(Check):
    id = "C12"
    level = "exploration"
    rule = ("(a) merge experiments: tool in {sonar, semgrep, codeql, defectdojo} x 1-5 generated result documents over <=4 rule ids x "
            "<=4 files (overlapping, disjoint, empty key sets; issues and/or hotspots; statuses; missing textRange; flows; several SARIF "
            "runs incl. foreign tools; ruleId vs indexed rule; missing region parts) x an operation sequence mixing `a | b`, `a |= b` and "
            "the repository's accumulation loop in a generated order; after every operation contents (public accessors) must equal the "
            "multiset union of an independent reference extraction restricted to the tool's own entries; (b) delivery experiments: 2-5 "
            "vulnerable sites of a SAST codemod, findings split over 1-4 files per tool in a generated order with decoys (foreign rule, "
            "foreign file, resolved status, foreign tool run, empty file) vs one clean delivery; non-trivial = (a) at least two documents "
            "with a non-empty reference, (b) clean delivery rewrote >= 2 files; distinct = by experiment digest")
    assumptions = [
        "entries of foreign runs/rules may remain in the set under their own rule ids; they must not alter own (rule, file) lists",
        "order inside a (rule, file) list is not part of the property",
        "the same file passed twice is not generated (the CLI de-duplicates list items)",
    ]
    budgets = {"quick": {"n": 220, "wall": 170}, "thorough": {"n": 3000, "wall": 1500}}

    # ---- generation -----------------------------------------------------------------
    def gen(self, rng, i, tier):
        if rng.random() < 0.22:
            return self.gen_delivery(rng)
        tool = rng.choice(["sonar", "sonar", "semgrep", "codeql", "defectdojo"])
        uid = [rng.randrange(1000) * 100]
        m = rng.randint(1, 5)
        docs = []
        for _ in range(m):
            if tool == "sonar":
                docs.append(gen_sonar_doc(rng, uid))
            elif tool == "defectdojo":
                docs.append(gen_dd_doc(rng, uid))
            else:
                docs.append(gen_sarif_doc(rng, uid, tool))
        # operation sequence
        ops = []
        r = rng.random()
        order = list(range(m))
        rng.shuffle(order)
        if r < 0.4:
            ops.append(["accumulate", order])
        else:
            ops.append(["load", order[0]])
            for j in order[1:]:
                ops.append(["load", j])
                ops.append([rng.choice(["or", "ior"])])
            if rng.random() < 0.3:
                ops.append(["accumulate", order[::-1]])
        if rng.random() < 0.5:
            # history inside one process: further requests for other combinations of the same (memoised) files must still
            # see each file as it is on disk
            for _ in range(rng.randint(1, 3)):
                if rng.random() < 0.6:
                    sub = rng.sample(range(m), rng.randint(1, m))
                    if rng.random() < 0.5:
                        sub.sort(key=lambda j: (j != order[0], rng.random()))  # same first file as before, other companions
                    ops.append(["accumulate", sub])
                else:
                    ops.append(["load", rng.randrange(m)])
        return {"kind": f"merge:{tool}", "tool": tool, "docs": docs, "ops": ops}

    def gen_delivery(self, rng):
        origin = rng.choice(["sonar", "sonar", "defectdojo", "semgrep"])
        pool = [c for c in G.ids(origin=origin) if any(G.is_plain_snippet(r) for r in W.triggering(c))]
        cid = rng.choice(pool)
        used = set()
        files = []
        for _ in range(rng.randint(2, 5)):
            f = G.gen_sast_file(rng, used, cid, dirs=["pkg", "app", ""], rich=False)
            if f:
                files.append(f)
        return {"kind": f"delivery:{origin}", "origin": origin, "include": [cid], "files": files,
                "split_seed": rng.randrange(1 << 30), "n_files": rng.randint(1, 4), "decoys": rng.sample(
                    ["foreign-rule", "foreign-file", "resolved-status", "foreign-tool-run", "empty-file"], rng.randint(0, 3)),
                "sched": G.rand_sched(rng, len(files)), "workers": rng.choice([None, 2, 4])}

    # ---- execution ------------------------------------------------------------------
    def execute(self, exp, ctx):
        if exp["kind"].startswith("merge"):
            results = {f"doc{j}.json": enc(json.dumps(d).encode()) for j, d in enumerate(exp["docs"])}
            spec = {"name": "merge", "world": {"files": {}, "results": results, "results_subst": False},
                    "call": {"name": "merge", "tool": exp["tool"], "files": [f"doc{j}.json" for j in range(len(exp["docs"]))], "ops": exp["ops"]},
                    "hashseed": 0, "sched": {"seed": 0, "policy": "fifo", "line_p": 0.0}}
            return {"merge": ctx.run(spec)}
        return self.execute_delivery(exp, ctx)

    def execute_delivery(self, exp, ctx):
        import random

        world, meta = W.build_world({"files": exp["files"]})
        rng = random.Random(f"split:{exp['split_seed']}")
        clean_results, clean_opts = W.default_delivery(meta)
        # split delivery
        results = {}
        opts = []
        for kind in sorted(meta["findings"]):
            fnd = [x["finding"] for x in meta["findings"][kind]]
            rng.shuffle(fnd)
            k = max(1, min(exp["n_files"], len(fnd)))
            parts = [fnd[j::k] for j in range(k)]
            names = []
            if kind == "semgrep":
                # two SARIF files of one tool are rejected by design: split over several runs of one file instead
                runs = [{"tool": {"driver": {"name": "Semgrep OSS", "rules": []}}, "results": p} for p in parts]
                if "foreign-tool-run" in exp["decoys"]:
                    runs.insert(rng.randrange(len(runs) + 1), {"tool": {"driver": {"name": "OtherScanner"}}, "results": []})
                if "foreign-rule" in exp["decoys"] and fnd:
                    d = copy.deepcopy(fnd[0])
                    d["ruleId"] = "some.other.rule"
                    runs[0]["results"].append(d)
                if "foreign-file" in exp["decoys"] and fnd:
                    d = copy.deepcopy(fnd[0])
                    for loc in d.get("locations", []):
                        loc["physicalLocation"]["artifactLocation"]["uri"] = "not/in/project.py"
                    runs[-1]["results"].append(d)
                results["split.sarif"] = enc(json.dumps({"version": "2.1.0", "runs": runs}).encode())
                names = ["split.sarif"]
            else:
                for j, p in enumerate(parts):
                    p = list(p)
                    if kind.startswith("sonar"):
                        if "foreign-rule" in exp["decoys"] and fnd and j == 0:
                            d = copy.deepcopy(fnd[0])
                            d["rule" if "rule" in d else "ruleKey"] = "python:S0000"
                            p.append(d)
                        if "resolved-status" in exp["decoys"] and fnd and j == len(parts) - 1:
                            d = copy.deepcopy(fnd[-1])
                            d["status"] = "RESOLVED"
                            d["textRange"] = dict(d.get("textRange", {}), startLine=999, endLine=999)
                            p.append(d)
                        if "foreign-file" in exp["decoys"] and fnd and j == 0:
                            d = copy.deepcopy(fnd[0])
                            d["component"] = "proj:not/in/project.py"
                            p.insert(0, d)
                    elif kind == "defectdojo":
                        if "foreign-rule" in exp["decoys"] and fnd and j == 0:
                            d = copy.deepcopy(fnd[0])
                            d["title"] = "some.other.rule"
                            d["id"] = 99001
                            p.append(d)
                        if "foreign-file" in exp["decoys"] and fnd and j == 0:
                            d = copy.deepcopy(fnd[0])
                            d["file_path"] = "not/in/project.py"
                            d["id"] = 99002
                            p.insert(0, d)
                    if kind.startswith("sonar"):
                        # the component key carries the project key, which may itself contain colons
                        prefix = rng.choice(["", "", "proj:", "org.acme:backend:", "my-org:team:service:"])
                        p = [dict(d, component=prefix + str(d.get("component", "")).split(":")[-1]) for d in p]
                    name = f"{kind.replace(':', '-')}-{j}.json"
                    results[name] = enc(json.dumps(W.make_result_doc(kind, p)).encode())
                    names.append(name)
                if "empty-file" in exp["decoys"]:
                    name = f"{kind.replace(':', '-')}-empty.json"
                    results[name] = enc(json.dumps(W.make_result_doc(kind, [])).encode())
                    names.insert(rng.randrange(len(names) + 1), name)
                rng.shuffle(names)
            if kind.startswith("sonar") and rng.random() < 0.15:
                # one export holding issues and hotspots is naturally given to both options: still one delivery of each finding
                both = ",".join(f"<R>/{n}" for n in names)
                opts += ["--sonar-issues-json", both, "--sonar-hotspots-json", both]
            elif kind.startswith("sonar") and len(names) >= 2 and rng.random() < 0.6:
                # Sonar result files may arrive through both options in one invocation (documents keep their own key)
                cut = rng.randrange(1, len(names))
                opts += ["--sonar-issues-json", ",".join(f"<R>/{n}" for n in names[:cut]),
                         "--sonar-hotspots-json", ",".join(f"<R>/{n}" for n in names[cut:])]
            else:
                opts += [W.RESULT_OPTION[kind], ",".join(f"<R>/{n}" for n in names)]
        base_argv = ["<T>", "--output", "<O>/report.codetf", "--codemod-include", ",".join(exp["include"])]
        if exp.get("workers"):
            base_argv += ["--max-workers", str(exp["workers"])]
        base = {"hashseed": 0, "sched": exp["sched"], "enum_seed": None}
        for d in exp["decoys"]:
            ctx.note_fault("delivery:" + d)
        ctx.note_fault(f"delivery:split({exp['n_files']})")
        ctx.note_fault("delivery:reorder")
        clean, split = ctx.run_many([dict(base, name="clean", world=dict(world, results=clean_results), argv=base_argv + clean_opts),
                                     dict(base, name="split", world=dict(world, results=results), argv=base_argv + opts)])
        return {"clean": clean, "split": split, "opts": opts}

    # ---- oracle ---------------------------------------------------------------------
    def oracle(self, exp, outcomes):
        if exp["kind"].startswith("delivery"):
            return self.oracle_delivery(exp, outcomes)
        v = []
        o = outcomes["merge"]
        tool = exp["tool"]
        if o["exception"]:
            return [{"clause": "merge-raised", "key": f"C12:merge-raised:{tool}:{o['exception'].split(':')[0]}", "detail": {"exception": o["exception"]}}]
        refs = []
        for d in exp["docs"]:
            refs.append(_norm(ref_sonar(d) if tool == "sonar" else ref_dd(d) if tool == "defectdojo" else ref_sarif(d, tool)))
        outcomes["_nonempty_refs"] = sum(1 for r in refs if r)
        stack = []
        steps = o["call_result"]["steps"]
        si = 0
        for op in exp["ops"]:
            if op[0] == "load":
                stack.append(refs[op[1]])
            elif op[0] in ("or", "ior"):
                b = stack.pop()
                a = stack.pop()
                stack.append(a + b)
            elif op[0] == "accumulate":
                tot = collections.Counter()
                for j in op[1]:
                    tot = tot + refs[j]
                stack.append(tot)
            # find the step records of this op
            recs = []
            while si < len(steps) and steps[si]["op"] == op:
                recs.append(steps[si])
                si += 1
                if "top" in recs[-1] or "error" in recs[-1]:
                    break
            err = next((r for r in recs if "error" in r), None)
            if err:
                v.append({"clause": "operation-raised", "key": f"C12:{op[0]}-raised:{tool}:{err['error'].split(':')[0]}",
                          "detail": {"op": op, "error": err["error"], "tb": err.get("tb", "")[-400:]}})
                return v
            for r in recs:
                if r.get("operands_unchanged") is False:
                    v.append({"clause": "operand-mutated", "key": f"C12:{op[0]}-mutates-operand:{tool}", "detail": {"op": op}})
            top = next((r for r in recs if "top" in r), None)
            if top is None:
                continue
            impl = _norm(impl_counter(top["top"]))
            want = stack[-1]
            own_keys = {(k[0], k[1]) for k in want}
            own_rules = {k[0] for k in want}
            impl_own = collections.Counter({k: n for k, n in impl.items() if (k[0], k[1]) in own_keys or k[0] in own_rules})
            if impl_own != want:
                lost = want - impl_own
                dup = impl_own - want
                what = "lost" if lost and not dup else ("extra" if dup and not lost else "altered")
                v.append({"clause": "conservation", "key": f"C12:{what}:{op[0]}:{tool}",
                          "detail": {"op": op, "lost": [list(k) for k in list(lost)[:4]], "extra": [list(k) for k in list(dup)[:4]],
                                     "docs": len(exp["docs"]), "ops": exp["ops"]}})
                return v
        return v

    def oracle_delivery(self, exp, outcomes):
        v = []
        clean, split = outcomes["clean"], outcomes["split"]
        if clean["status"] != 0 or clean["exception"]:
            return v
        if split["status"] != 0 or split["exception"]:
            return [{"clause": "delivery-run-failed", "key": f"C12:delivery-run-failed:{exp['origin']}",
                     "detail": {"status": split["status"], "exception": split["exception"], "decoys": exp["decoys"], "opts": outcomes["opts"]}}]
        if clean["changed"] != split["changed"]:
            lost = sorted(set(clean["changed"]) - set(split["changed"]))
            extra = sorted(set(split["changed"]) - set(clean["changed"]))
            v.append({"clause": "delivery-sites", "key": f"C12:delivery-sites-differ:{'lost' if lost else 'other'}:{exp['origin']}",
                      "detail": {"lost": lost, "extra": extra, "decoys": exp["decoys"], "n_files": exp["n_files"], "opts": outcomes["opts"]}})
            return v
        cid = exp["include"][0]

        def summary(o):
            r = (results_by_codemod(o["report"]).get(cid) or [{}])[0]
            cs = {c["path"]: sorted(json.dumps(ch.get("findings"), sort_keys=True) for ch in c.get("changes", [])) for c in r.get("changeset", [])}
            unf = sorted(json.dumps(u, sort_keys=True) for u in (r.get("unfixedFindings") or []) if u.get("path") != "not/in/project.py")
            return cs, unf

        if summary(clean) != summary(split):
            v.append({"clause": "delivery-finding-identity", "key": f"C12:delivery-findings-differ:{exp['origin']}",
                      "detail": {"decoys": exp["decoys"], "n_files": exp["n_files"], "opts": outcomes["opts"]}})
        return v

    def nontrivial(self, exp, outcomes):
        if exp["kind"].startswith("delivery"):
            return len(outcomes["clean"]["changed"]) >= 2
        return outcomes.get("_nonempty_refs", 0) >= 2

    def shrink(self, exp):
        if exp["kind"].startswith("delivery"):
            for j in range(len(exp["decoys"])):
                c = copy.deepcopy(exp)
                del c["decoys"][j]
                yield c
            if exp["n_files"] > 1:
                c = copy.deepcopy(exp)
                c["n_files"] -= 1
                yield c
            if len(exp["files"]) > 1:
                for j in range(len(exp["files"])):
                    c = copy.deepcopy(exp)
                    del c["files"][j]
                    yield c
            return
        # merge: drop documents (re-index ops), then drop findings
        m = len(exp["docs"])
        if m > 1:
            for j in range(m):
                c = copy.deepcopy(exp)
                del c["docs"][j]
                order = [k for k in range(m) if k != j]
                remap = {k: n for n, k in enumerate(order)}
                ops = [["load", 0]] if False else []
                seq = [remap[k] for op in exp["ops"] if op[0] in ("load",) for k in [op[1]] if k in remap]
                acc = [op for op in exp["ops"] if op[0] == "accumulate"]
                if seq:
                    ops.append(["load", seq[0]])
                    kinds = [op[0] for op in exp["ops"] if op[0] in ("or", "ior")]
                    for n, k in enumerate(seq[1:]):
                        ops.append(["load", k])
                        ops.append([kinds[min(n, len(kinds) - 1)] if kinds else "or"])
                for op in acc:
                    ops.append(["accumulate", [remap[k] for k in op[1] if k in remap]])
                c["ops"] = ops
                yield c

    def sample(self, exp, outcomes):
        if exp["kind"].startswith("delivery"):
            return {"kind": exp["kind"], "include": exp["include"], "decoys": exp["decoys"], "options": outcomes["opts"],
                    "changed": sorted(outcomes["split"]["changed"])}
        return {"kind": exp["kind"], "ops": exp["ops"], "docs": exp["docs"][:2]}


CHECK = C12()
