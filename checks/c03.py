"""C03 - the diff in the report is exactly the change made on disk (history check over the write log
recorded at the file seam: bytes before each write, bytes written, attributed to codemods by the
documented progress marker)."""
import copy
import io
import tokenize

from simbox import gen as G
from simbox import world as W
from simbox.framework import Check
from simbox.udiff import PatchError, apply_unified, equal_up_to_final_newline
from simbox.util import dec


def input_class(exp, path):
    for f in exp["world_spec"]["files"]:
        if f["path"] == path:
            if "manifest" in f:
                m = W.manifests()[f["manifest"]]
                return "manifest:" + m["name"]
            lay = f.get("layout") or {}
            if lay.get("bom"):
                return "py:bom"
            if lay.get("cookie"):
                return "py:cookie:" + lay["cookie"]
            if lay.get("exotic"):
                return "exotic:" + lay["exotic"]
            if lay.get("eol") == "cr":
                return "eol:cr"
            if "raw" in f:
                return "raw:" + path.rsplit(".", 1)[-1]
            tags = [k for k in ("bom", "eol", "final_nl") if k in lay]
            return "py" + ("".join(":" + t for t in tags))
    return "other"


class C03(Check):
    id = "C03"
    level = "exploration"
    rule = ("experiment = generated project (sources in LF/CRLF/no-final-newline/BOM/non-ASCII/tabs/declared-latin-1 layouts, a labelled class with "
            "exotic separators - form feed, VT, NEL, U+2028, lone CR -, txt/html/xml files, dependency manifests of the four kinds) x "
            "codemod sequence (1-6, biased to sequences touching the same file/line/manifest, incl. plugin regex/XML pipelines and "
            "dependency-adding codemods) in a real run with 1-8 workers, optionally with a manifest that cannot be opened for writing; oracle per write event: patch(changeset.diff, bytes before "
            "that write) == bytes written up to one final line terminator; untouched <=> no changeset; non-trivial = at least one "
            "changeset was checked against a write event; distinct = by experiment digest")
    assumptions = [
        "diff consumers' line model: lines end at \\n only; no fuzz, no second line model",
        "writes are attributed to codemods by the documented progress line `running codemod <id>`",
    ]
    budgets = {"quick": {"n": 70, "wall": 170}, "thorough": {"n": 900, "wall": 1500}}

    def extra_batches(self, tier):
        """fixed experiments: one per listed known finding (so that each is demonstrated, or seen fixed, on every run)
        plus one per exotic separator class"""
        exps = []
        fstr = G.pick_snippet(__import__("random").Random(1), "pixee:python/remove-unnecessary-f-str")["idx"]
        sec = G.pick_snippet(__import__("random").Random(1), "pixee:python/url-sandbox")["idx"]
        base = {"plugins": False, "path_include": None, "extra_findings": {}, "sched": {"seed": 0, "policy": "fifo", "line_p": 0.0},
                "workers": None, "enum_seed": None}
        exps.append(dict(base, kind="fixed:bom", include=["pixee:python/remove-unnecessary-f-str"],
                         world_spec={"files": [{"path": "pkg/a.py", "snippets": [fstr], "layout": {"bom": True}}]}))
        exps.append(dict(base, kind="fixed:bom-offset", include=["pixee:python/remove-unnecessary-f-str"],
                         world_spec={"files": [{"path": "pkg/a.py", "snippets": [fstr], "layout": {"bom": True, "offset": 5}}]}))
        # sources that declare a non-UTF-8 encoding (left alone and listed as failed on the pinned tree; whatever is written
        # to such a file must be explained by the diff when both sides are read in the declared encoding)
        for codec in ("latin-1", "cp1252"):
            exps.append(dict(base, kind="fixed:cookie-" + codec, include=["pixee:python/remove-unnecessary-f-str", "pixee:python/url-sandbox"],
                             world_spec={"files": [{"path": "pkg/a.py", "snippets": [fstr], "layout": {"cookie": codec}},
                                                   {"path": "pkg/b.py", "snippets": [fstr], "layout": {}}]}))
        names = {m["name"]: m["idx"] for m in W.manifests()}
        for mname, fname in (("req-crlf", "requirements.txt"), ("pyproject-crlf", "pyproject.toml"), ("setuppy-crlf", "setup.py"),
                             ("setupcfg-crlf", "setup.cfg"), ("pyproject-poetry-no-deps", "pyproject.toml")):
            exps.append(dict(base, kind="fixed:" + mname, include=["pixee:python/url-sandbox"],
                             world_spec={"files": [{"path": "pkg/a.py", "snippets": [sec], "layout": {}}, {"path": fname, "manifest": names[mname]}]}))
        for mname in ("setuppy-utf8-bom", "setuppy-utf8-bom-compact", "req-utf8-bom"):
            exps.append(dict(base, kind="fixed:" + mname, include=["pixee:python/url-sandbox"],
                             world_spec={"files": [{"path": "pkg/a.py", "snippets": [sec], "layout": {}}, {"path": W.manifests()[names[mname]]["file"], "manifest": names[mname]}]}))
        # every manifest shape of the corpus once with a dependency-adding codemod (the writers build their diffs themselves)
        done = {e["world_spec"]["files"][-1].get("manifest") for e in exps if "manifest" in e["world_spec"]["files"][-1]}
        for m in W.manifests():
            if m["idx"] in done:
                continue
            use = (m.get("tags", {}).get("use") or ["security"])[0]
            cid, snip = ("pixee:python/use-defusedxml", G.pick_snippet(__import__("random").Random(2), "pixee:python/use-defusedxml")["idx"]) if use == "defusedxml" else ("pixee:python/url-sandbox", sec)
            exps.append(dict(base, kind="fixed:manifest-walk", include=[cid],
                             world_spec={"files": [{"path": "pkg/a.py", "snippets": [snip], "layout": {}}, {"path": m["file"], "manifest": m["idx"]}]}))
        for ex in ("ff", "vt-in-str", "u2028-in-str", "nel-in-str", "ff-in-str", "cr-in-comment"):
            exps.append(dict(base, kind="fixed:exotic:" + ex, include=["pixee:python/remove-unnecessary-f-str"],
                             world_spec={"files": [{"path": "pkg/a.py", "snippets": [fstr], "layout": {"exotic": ex}}]}))
        for mname, fname in (("req-plain", "requirements.txt"), ("pyproject-project-deps", "pyproject.toml"), ("setuppy-multi", "setup.py"),
                             ("setupcfg-multiline", "setup.cfg")):
            exps.append(dict(base, kind="fixed:unwritable:" + mname, include=["pixee:python/url-sandbox"], unwritable=[fname],
                             world_spec={"files": [{"path": "pkg/a.py", "snippets": [sec], "layout": {}}, {"path": fname, "manifest": names[mname]}]}))
        setup_src = ('import pickle\nfrom setuptools import setup\n\n\ndef load(f):\n    return pickle.load(f)\n\n\ndef dump(o, f):\n    pickle.dump(o, f)\n\n\n'
                     'setup(\n    name="x",\n    install_requires=[\n        "requests",\n    ],\n)\n')
        exps.append(dict(base, kind="fixed:setup-py-source-and-manifest", include=["pixee:python/harden-pickle-load"],
                         world_spec={"files": [{"path": "setup.py", "raw": {"t": setup_src}}]}))
        exps.append(dict(base, kind="fixed:setup-py-source-and-manifest", include=["pixee:python/fix-mutable-params", "pixee:python/harden-pickle-load", "pixee:python/remove-unnecessary-f-str"],
                         world_spec={"files": [{"path": "setup.py", "raw": {"t": setup_src + "\n\ndef g(x=[]):\n    return f'y'\n"}},
                                               {"path": "pkg/a.py", "snippets": [fstr], "layout": {}}]}))
        # a source file that is not valid UTF-8 away from the fixable construct: whatever the run does with it, the bytes on
        # disk must be explained by the diff (the pinned tree fails to parse it and leaves it alone)
        exps.append(dict(base, kind="fixed:not-utf8-away-from-change", include=["pixee:python/remove-unnecessary-f-str", "pixee:python/fix-mutable-params"],
                         world_spec={"files": [{"path": "pkg/legacy.py", "raw": {"b": "ZGVmIGYoeD1bXSk6CiAgICByZXR1cm4gZidoZWxsbycKCgoKCgoKIyBjYWbpIChhIHN0cmF5IExhdGluLTEgYnl0ZSwgZmFyIGZyb20gdGhlIGNvbnN0cnVjdCkKeSA9IDEK"}}, {"path": "pkg/a.py", "snippets": [fstr], "layout": {}}]}))
        exps.append(dict(base, kind="fixed:eol-cr", include=["pixee:python/remove-unnecessary-f-str"],
                         world_spec={"files": [{"path": "pkg/a.py", "snippets": [fstr], "layout": {"eol": "cr"}}]}))
        return exps

    def gen(self, rng, i, tier):
        exotic = rng.random() < 0.2
        exp = G.gen_general(rng, kinds=("ff", "ff", "ff-dep", "ff-dep", "sast", "plugin", "mixed"), max_codemods=6, exotic=exotic)
        if rng.random() < 0.3 and exp["kind"] in ("ff", "ff-dep"):
            # several codemods on the same file / line
            used = {f["path"] for f in exp["world_spec"]["files"]}
            f = G.gen_py_file(rng, used, exp["include"], n_snip=(2, 4), exotic=exotic)
            if f:
                exp["world_spec"]["files"].append(f)
        if rng.random() < 0.1:
            for f in exp["world_spec"]["files"]:
                if "snippets" in f and rng.random() < 0.5:
                    f.setdefault("layout", {})["eol"] = "cr"
        if not exp["world_spec"]["files"] or not exp["include"]:
            return None
        exp["sched"] = G.rand_sched(rng, len(exp["world_spec"]["files"]))
        exp["workers"] = rng.choice([None, 1, 2, 4, 8])
        exp["enum_seed"] = rng.choice([None, rng.randrange(100)])
        ms = [f["path"] for f in exp["world_spec"]["files"] if "manifest" in f]
        if ms and rng.random() < 0.3:
            # a manifest that cannot be opened for writing: whatever the run reports for it must still match the disk
            exp["unwritable"] = [rng.choice(ms)] if rng.random() < 0.7 else ms
        return exp

    def execute(self, exp, ctx):
        world, meta = W.build_world(exp["world_spec"])
        argv, results = G.general_argv(exp, meta, workers=exp.get("workers"))
        plan = [{"op": "open-write", "path": "<T>/" + p, "kind": "open-eacces", "nth": 0} for p in exp.get("unwritable", [])]
        o = ctx.run({"name": "real", "world": dict(world, results=results), "argv": argv, "hashseed": 0, "sched": exp["sched"],
                     "enum_seed": exp.get("enum_seed"), "plugins": exp.get("plugins", False), "faults": plan})
        return {"run": o, "orig": world["files"]}

    def oracle(self, exp, outcomes):
        v = []
        o = outcomes["run"]
        if o["status"] != 0 or o["exception"] or not o["report"]:
            return v  # C10/C20's business
        seen = set()

        def add(clause, what, detail):
            # defects of the shared diff construction are keyed by input class, everything else by codemod + class
            for marker in ("exotic:", "eol:cr", "manifest:"):
                if marker in what:
                    what = what[what.index(marker):]
            if what.endswith(":bom") or ":bom:" in what:
                what = "bom"
            key = f"C03:{clause}:{what}"
            if key not in seen:
                seen.add(key)
                v.append({"clause": clause, "key": key, "detail": detail})

        writes = [w for w in o["writes"] if w["path"].startswith("<T>/")]
        by_cell = {}
        for w in writes:
            by_cell.setdefault((w["ci"], w["path"][4:]), []).append(w)
        named = set()
        checked = 0
        for ci, res in enumerate(o["report"].get("results", [])):
            cid = res.get("codemod")
            for cs in res.get("changeset", []):
                p = cs.get("path")
                named.add(p)
                cls = input_class(exp, p)
                # the k-th changeset a codemod lists for a path answers the k-th write of that codemod to that path (one codemod
                # may write a file twice: setup.py rewritten as a source file, then updated as the dependency manifest)
                ws = by_cell.get((ci, p), [])
                if not ws:
                    add("changeset-without-single-write", f"{cid}:{cls}", {"codemod": cid, "path": p, "writes": 0})
                    continue
                w = ws.pop(0)
                before = dec(w["before"]) if w["before"] is not None else b""
                after = dec(w["after"]) if w["after"] is not None else b""
                if before == after:
                    add("changeset-for-unchanged-file", f"{cid}:{cls}", {"codemod": cid, "path": p})
                    continue
                try:
                    bt = before.decode("utf-8")
                    at = after.decode("utf-8")
                except UnicodeDecodeError:
                    # a source with a PEP 263 cookie: both sides are read the way the file declares itself, so a write in
                    # another encoding than the declared one shows up as text that the diff does not explain
                    try:
                        codec = tokenize.detect_encoding(io.BytesIO(before).readline)[0]
                        bt = before.decode(codec)
                        at = after.decode(codec)
                    except (UnicodeDecodeError, SyntaxError, LookupError):
                        add("written-bytes-not-decodable", f"{cid}:{cls}", {"codemod": cid, "path": p})
                        continue
                checked += 1
                try:
                    patched = apply_unified(cs.get("diff", ""), bt)
                except PatchError as e:
                    add("diff-does-not-apply", f"{cid}:{cls}", {"codemod": cid, "path": p, "error": str(e), "layout": cls,
                                                                "diff_head": cs.get("diff", "")[:300]})
                    continue
                if not equal_up_to_final_newline(patched, at):
                    # locate first difference
                    n = next((k for k in range(min(len(patched), len(at))) if patched[k] != at[k]), min(len(patched), len(at)))
                    add("patched-differs-from-written", f"{cid}:{cls}",
                        {"codemod": cid, "path": p, "layout": cls, "at": n, "patched": patched[max(0, n - 30):n + 30], "written": at[max(0, n - 30):n + 30]})
        outcomes["_checked"] = checked
        # write events not explained by a changeset
        for (ci, p), ws in sorted(by_cell.items()):
            if not ws:
                continue
            cid = o["codemod_ids"][ci] if 0 <= ci < len(o["codemod_ids"]) else "?"
            add("write-without-changeset", f"{cid}:{input_class(exp, p)}", {"codemod": cid, "path": p, "writes": len(ws)})
        # untouched <=> no changeset
        for p in sorted(set(o["changed"]) - named):
            add("changed-without-changeset", input_class(exp, p), {"path": p})
        for p in sorted(named - set(o["changed"])):
            if p in outcomes["orig"] or p in o["tree_after"]:
                add("changeset-but-unchanged", input_class(exp, p), {"path": p})
        return v

    def nontrivial(self, exp, outcomes):
        return outcomes.get("_checked", 0) > 0

    def shrink(self, exp):
        inc = exp["include"]
        if len(inc) > 1:
            for j in range(len(inc)):
                c = copy.deepcopy(exp)
                del c["include"][j]
                yield c
        fs = exp["world_spec"]["files"]
        if len(fs) > 1:
            for j in range(len(fs)):
                c = copy.deepcopy(exp)
                del c["world_spec"]["files"][j]
                yield c
        for j, f in enumerate(fs):
            if len(f.get("snippets", [])) > 1:
                for k in range(len(f["snippets"])):
                    c = copy.deepcopy(exp)
                    del c["world_spec"]["files"][j]["snippets"][k]
                    yield c
            lay = f.get("layout") or {}
            for key in list(lay):
                c = copy.deepcopy(exp)
                del c["world_spec"]["files"][j]["layout"][key]
                yield c
        if exp["sched"].get("policy") != "fifo":
            c = copy.deepcopy(exp)
            c["sched"] = {"seed": 0, "policy": "fifo", "line_p": 0.0}
            c["workers"] = None
            c["enum_seed"] = None
            yield c

    def sample(self, exp, outcomes):
        o = outcomes["run"]
        return {"kind": exp["kind"], "include": exp["include"],
                "files": [{k: v for k, v in f.items() if k != "raw"} for f in exp["world_spec"]["files"]][:5],
                "changesets_checked": outcomes.get("_checked"), "writes": [(w["ci"], w["path"]) for w in o["writes"] if w["path"].startswith("<T>/")][:8]}


CHECK = C03()
