"""C14 (scoped) - adding a dependency keeps the manifest valid, complete and duplicate-free.
What the simulator varies: which stores exist and the order in which they are discovered, the
run history (run, re-run), and unwritable-manifest faults on each store in turn.  The manifest
TEXT dimension is the fixed corpus (DESIGN.md 3.3) - simulation does not enumerate texts."""
import ast
import configparser
import copy
import re
import tomllib

from packaging.requirements import InvalidRequirement, Requirement
from packaging.utils import canonicalize_name

from simbox import gen as G
from simbox import world as W
from simbox.codetf_check import STRUCTURAL, check_report
from simbox.framework import Check
from simbox.normalize import results_by_codemod
from simbox.util import dec

NEEDS = {  # codemod -> canonical package names it adds
    "pixee:python/flask-enable-csrf-protection": ["flask-wtf"],
    "pixee:python/sandbox-process-creation": ["security"],
    "pixee:python/url-sandbox": ["security"],
    "pixee:python/use-defusedxml": ["defusedxml"],
    "pixee:python/harden-pickle-load": ["fickling"],
}


# ---- independent extraction of declared requirement names per format ----------------------------
def _req_name(s):
    try:
        return canonicalize_name(Requirement(s.strip()).name)
    except (InvalidRequirement, ValueError):
        return None


def parse_manifest(kind, data: bytes):
    """-> (ok, [canonical names], detail). ok=False: does not parse in its own format"""
    try:
        text = data.decode("utf-8-sig")
    except UnicodeDecodeError:
        return False, [], "not utf-8"
    if kind == "requirements.txt":
        names = []
        bad = []
        logical = text.replace("\\\r\n", " ").replace("\\\n", " ")
        for line in logical.splitlines():
            line = re.sub(r"(^|\s+)#.*$", "", line).strip()  # pip: a comment starts at a '#' that follows whitespace or the line start
            if not line or line.startswith("-"):
                continue
            line = line.split(" --hash")[0].strip()
            n = _req_name(line)
            (names if n else bad).append(n or line)
        return True, names, {"unparsable_lines": bad}
    if kind == "pyproject.toml":
        try:
            d = tomllib.loads(text)
        except Exception as e:
            return False, [], f"toml: {e}"
        names = []
        for s in (d.get("project") or {}).get("dependencies") or []:
            n = _req_name(s) if isinstance(s, str) else None
            names.append(n or f"?{s}")
        poetry = (d.get("tool") or {}).get("poetry") or {}
        for k in (poetry.get("dependencies") or {}):
            if k != "python":
                names.append(canonicalize_name(k))
        return True, names, None
    if kind == "setup.py":
        try:
            tree = ast.parse(text)
        except SyntaxError as e:
            return False, [], f"python: {e}"
        names = []
        for node in ast.walk(tree):
            if isinstance(node, ast.Call):
                for kw in node.keywords:
                    if kw.arg == "install_requires" and isinstance(kw.value, ast.List):
                        for el in kw.value.elts:
                            if isinstance(el, ast.Constant) and isinstance(el.value, str):
                                names.append(_req_name(el.value) or f"?{el.value}")
                            else:
                                names.append("?non-literal")
        return True, names, None
    if kind == "setup.cfg":
        cp = configparser.ConfigParser()
        try:
            cp.read_string(text)
        except configparser.Error as e:
            return False, [], f"cfg: {e}"
        names = []
        raw = cp.get("options", "install_requires", fallback="") if cp.has_section("options") else ""
        lines = [l for l in raw.split("\n") if l.strip()]
        if raw.strip().startswith("file:"):
            # setuptools' `file:` directive: every comma separated item names a FILE holding requirements, none is a requirement
            return True, [], {"file_directive": [x.strip() for x in raw.strip()[5:].split(",") if x.strip()]}
        if len(lines) == 1 and raw.strip() and not raw.startswith("\n"):  # value on the key's own line = inline list
            # inline list: setuptools splits a single line at commas... but a requirement may itself hold commas in its
            # specifier; setuptools' own rule: one line -> split on ';'-free commas only when no newline is present
            items = [x for x in lines[0].split(",")]
            # re-join specifier fragments (an item that does not start with a name char continues the previous one)
            merged = []
            for it in items:
                s = it.strip()
                if merged and s and (s[0] in "<>=!~" or s[0].isdigit()):
                    merged[-1] += "," + s
                elif s:
                    merged.append(s)
            lines = merged
        for l in lines:
            names.append(_req_name(l.split(" #")[0]) or f"?{l.strip()}")
        return True, names, None
    return True, [], None


def lines_preserved(before: bytes, after: bytes):
    """adding a requirement is an insertion: the original text, whitespace and line terminators aside, must be a
    subsequence of the new text. Returns the first stretch of original text that is not kept (or [])."""
    b = "".join(before.decode("utf-8", "replace").split())
    a = "".join(after.decode("utf-8", "replace").split())
    j = 0
    for i, ch in enumerate(b):
        k = a.find(ch, j)
        if k < 0:
            return [b[max(0, i - 30):i + 30]]
        j = k + 1
    return []


class C14(Check):
    id = "C14"
    level = "exploration"
    rule = ("experiment = one trigger file of a dependency-adding codemod (5 codemods) + 0-4 manifests drawn from the fixed 121-shape "
            "manifest corpus (4 formats) placed at root / sub-directories x directory enumeration permutation (store discovery order) x "
            "history (run, identical re-run) x manifest faults (EACCES / EROFS at open-for-write on each store in turn, on all stores, or "
            "none present; vanish / EIO / EACCES at the n-th read of the chosen store; ENOSPC / short write / EIO while it is being "
            "rewritten, ENOSPC at close); non-trivial = the codemod changed the source file, i.e. a dependency was actually needed; "
            "distinct = by experiment digest. The manifest TEXT dimension is a fixed sample, not searched.")
    assumptions = [
        "scoped: simulation varies store set / discovery order / history / write faults; manifest texts are the vendored corpus",
        "'already declared' and 'exactly once' are judged per manifest by canonical (PEP 503) name",
        "line terminators are ignored when checking that unrelated content is kept (CRLF rewriting is reported under C03)",
    ]
    budgets = {"quick": {"n": 110, "wall": 170}, "thorough": {"n": 1500, "wall": 1500}}

    def extra_batches(self, tier):
        """every manifest shape alone with the codemod most relevant to it (one fixed experiment per shape)"""
        exps = []
        import random

        for m in W.manifests():
            tags = m.get("tags", {})
            want = (tags.get("use") or tags.get("present") or tags.get("present_spelling") or ["security"])[0]
            cid = next(c for c, n in NEEDS.items() if n[0] == want and c != "pixee:python/sandbox-process-creation")
            rng = random.Random(f"c14-fixed-{m['idx']}")
            r = G.pick_snippet(rng, cid)
            exps.append({"kind": "corpus:" + m["file"], "include": [cid],
                         "files": [{"path": "pkg/app.py", "snippets": [r["idx"]], "layout": {}}, {"path": m["file"], "manifest": m["idx"]}],
                         "enum_seeds": [None, 3], "faults": "none", "sched": {"seed": 0, "policy": "fifo", "line_p": 0.0}})
        # the store the fault-free run chooses is unwritable, a second store of another kind can take the dependency
        names = {m["name"]: m for m in W.manifests()}
        plain = ["req-plain", "pyproject-project-deps", "setuppy-multi", "setupcfg-multiline"]
        rng = random.Random("c14-fallthrough")
        r = G.pick_snippet(rng, "pixee:python/url-sandbox")
        for a in plain:
            for b in plain:
                if names[a]["file"] == names[b]["file"]:
                    continue
                for fk in ("open-eacces", "open-erofs"):
                    exps.append({"kind": "fallthrough", "include": ["pixee:python/url-sandbox"],
                                 "files": [{"path": "pkg/app.py", "snippets": [r["idx"]], "layout": {}},
                                           {"path": names[a]["file"], "manifest": names[a]["idx"]}, {"path": "sub/" + names[b]["file"] if names[b]["file"] != "setup.py" else "setup.py", "manifest": names[b]["idx"]}],
                                 "enum_seeds": [None, None], "faults": "first", "fault_kind": fk, "fault_pick": 0,
                                 "sched": {"seed": 0, "policy": "fifo", "line_p": 0.0}})
        # the chosen manifest cannot be READ any more when the writer comes to it (vanished, EIO, EACCES after discovery)
        for a in plain:
            for rk in ("vanish-before-read", "read-eio", "read-eacces"):
                for nth in (1, 2, 3):  # 1 = discovery, 2 / 3 = the writer's own reads
                    exps.append({"kind": "read-fault", "include": ["pixee:python/url-sandbox"],
                                 "files": [{"path": "pkg/app.py", "snippets": [r["idx"]], "layout": {}}, {"path": names[a]["file"], "manifest": names[a]["idx"]}],
                                 "enum_seeds": [None, None], "faults": "read-fault", "fault_kind": rk, "fault_nth": nth, "fault_pick": 0,
                                 "sched": {"seed": 0, "policy": "fifo", "line_p": 0.0}})
        # the disk fills up / a write fails WHILE the chosen manifest is being rewritten (after it was opened and truncated)
        for a in plain:
            for wk in ("enospc-on-write", "short-write", "eio-on-write"):
                exps.append({"kind": "write-fault", "include": ["pixee:python/url-sandbox"],
                             "files": [{"path": "pkg/app.py", "snippets": [r["idx"]], "layout": {}}, {"path": names[a]["file"], "manifest": names[a]["idx"]}],
                             "enum_seeds": [None, None], "faults": "write-fault", "fault_kind": wk, "fault_pick": 0,
                             "sched": {"seed": 0, "policy": "fifo", "line_p": 0.0}})
        # several dependency-adding codemods in ONE run (same package twice, already declared package first, ...)
        seqs = [["pixee:python/url-sandbox", "pixee:python/sandbox-process-creation", "pixee:python/harden-pickle-load"],
                ["pixee:python/url-sandbox", "pixee:python/use-defusedxml"],
                ["pixee:python/harden-pickle-load", "pixee:python/url-sandbox", "pixee:python/use-defusedxml"],
                ["pixee:python/use-defusedxml", "pixee:python/flask-enable-csrf-protection"]]
        for mn in ("setupcfg-inline-single", "setupcfg-inline"):
            files = []
            for ci, cid in enumerate(seqs[0][:2]):
                rr = G.pick_snippet(random.Random(f"c14-inline-{ci}"), cid)
                files.append({"path": f"pkg/m{ci}.py", "snippets": [rr["idx"]], "layout": {}})
            files.append({"path": "setup.cfg", "manifest": names[mn]["idx"]})
            exps.append({"kind": "sequence", "include": seqs[0][:2], "files": files, "enum_seeds": [None, None], "faults": "none",
                         "sched": {"seed": 0, "policy": "fifo", "line_p": 0.0}})
        for si, seq in enumerate(seqs):
            for mn in ("req-plain", "req-has-security", "pyproject-project-deps", "pyproject-has-security", "setuppy-has-security",
                       "setupcfg-has-security", "setupcfg-multiline", "req-has-defusedxml-other-version", "setupcfg-inline",
                       "setupcfg-inline-single", "setuppy-inline", "pyproject-inline-deps", "pyproject-poetry"):
                files = []
                for ci, cid in enumerate(seq):
                    rr = G.pick_snippet(random.Random(f"c14-seq-{si}-{ci}"), cid)
                    files.append({"path": f"pkg/m{ci}.py", "snippets": [rr["idx"]], "layout": {}})
                files.append({"path": names[mn]["file"], "manifest": names[mn]["idx"]})
                if si % 2 == 0 and names[mn]["file"] != "requirements.txt":
                    files.append({"path": "requirements.txt", "manifest": names["req-comments"]["idx"]})  # a second store
                exps.append({"kind": "sequence", "include": seq, "files": files, "enum_seeds": [None, None], "faults": "none",
                             "sched": {"seed": si, "policy": "fifo", "line_p": 0.0}})
        return exps

    def gen(self, rng, i, tier):
        cid = rng.choice(sorted(NEEDS))
        r = G.pick_snippet(rng, cid)
        if r is None:
            return None
        files = [{"path": rng.choice(["app.py", "pkg/app.py", "src/lib/m.py"]), "snippets": [r["idx"]], "layout": {}}]
        k = rng.choice([0, 1, 2, 2, 3, 4])
        used = set()
        for _ in range(k):
            m = rng.choice(W.manifests())
            d = rng.choice(["", "", "sub", "deploy/x"])
            p = (d + "/" if d else "") + m["file"]
            if p in used:
                continue
            used.add(p)
            files.append({"path": p, "manifest": m["idx"]})
        faults = rng.choice(["none", "none", "none", "first", "all", "one-random", "read-fault", "write-fault"])
        fk = {"read-fault": ["vanish-before-read", "read-eio", "read-eacces"], "write-fault": ["enospc-on-write", "short-write", "eio-on-write", "enospc-on-close"]}.get(
            faults, ["open-eacces", "open-erofs"])
        fk = rng.choice(fk)
        return {"kind": f"stores:{k}:{faults}", "include": [cid], "files": files, "enum_seeds": [rng.randrange(1000), rng.randrange(1000)],
                "faults": faults, "fault_kind": fk, "fault_nth": rng.choice([1, 2, 2, 3]), "fault_pick": rng.randrange(8),
                "sched": G.rand_sched(rng, 2)}

    def execute(self, exp, ctx):
        if exp["kind"] == "sequence":
            return self.execute_sequence(exp, ctx)
        world, meta = W.build_world({"files": exp["files"]})
        manifests = sorted(p for p, m in meta["files"].items() if m["kind"] == "manifest")
        plan = []
        fk = exp.get("fault_kind", "open-eacces")
        if exp["faults"] == "all":
            plan = [{"op": "open-write", "path": "<T>/" + p, "kind": fk, "nth": 0} for p in manifests]
        elif exp["faults"] == "one-random" and manifests:
            plan = [{"op": "open-write", "path": "<T>/" + manifests[exp["fault_pick"] % len(manifests)], "kind": fk, "nth": 0}]
        argv = ["<T>", "--output", "<O>/report.codetf", "--codemod-include", ",".join(exp["include"])]
        base = {"argv": argv, "hashseed": 0, "sched": exp["sched"]}
        first = ctx.run(dict(base, name="run", world=world, enum_seed=exp["enum_seeds"][0], faults=plan))
        if exp["faults"] == "first" and manifests:
            # fault the store the fault-free run chose, then see that the run falls through properly
            chosen = [p for p in manifests if p in first["changed"]]
            if chosen:
                plan = [{"op": "open-write", "path": "<T>/" + chosen[0], "kind": fk, "nth": 0}]
                first = ctx.run(dict(base, name="run-faulted", world=world, enum_seed=exp["enum_seeds"][0], faults=plan))
        if exp["faults"] == "read-fault" and manifests:
            # the store the fault-free run chose (or any) stops being readable at its n-th read: 1 = discovery, 2 = the writer
            chosen = [p for p in manifests if p in first["changed"]] or manifests
            plan = [{"op": "open-read", "path": "<T>/" + chosen[exp["fault_pick"] % len(chosen)], "kind": fk, "nth": exp.get("fault_nth", 2)}]
            first = ctx.run(dict(base, name="run-read-faulted", world=world, enum_seed=exp["enum_seeds"][0], faults=plan))
        if exp["faults"] == "write-fault" and manifests:
            chosen = [p for p in manifests if p in first["changed"]] or manifests
            plan = [{"op": "write", "path": "<T>/" + chosen[exp["fault_pick"] % len(chosen)], "kind": fk}]
            first = ctx.run(dict(base, name="run-write-faulted", world=world, enum_seed=exp["enum_seeds"][0], faults=plan))
        files2 = W.apply_changes(world["files"], first["changed"])
        second = ctx.run(dict(base, name="rerun", world=dict(world, files=files2), enum_seed=exp["enum_seeds"][1], faults=[]))
        return {"first": first, "second": second, "manifests": manifests, "orig": world["files"], "plan": plan, "meta": meta["files"]}

    def execute_sequence(self, exp, ctx):
        """batch run of several dependency-adding codemods vs the chain of single-codemod runs (reference)"""
        world, meta = W.build_world({"files": exp["files"]})
        manifests = sorted(p for p, m in meta["files"].items() if m["kind"] == "manifest")
        base = {"hashseed": 0, "sched": exp["sched"], "enum_seed": exp["enum_seeds"][0]}

        def argv(inc):
            return ["<T>", "--output", "<O>/report.codetf", "--codemod-include", ",".join(inc)]

        batch = ctx.run(dict(base, name="batch", world=world, argv=argv(exp["include"])))
        files = world["files"]
        chain = []
        for cid in exp["include"]:
            o = ctx.run(dict(base, name="chain:" + cid, world=dict(world, files=files), argv=argv([cid])))
            chain.append(o)
            files = W.apply_changes(files, o["changed"])
        return {"batch": batch, "chain": chain, "chain_final": files, "orig": world["files"], "manifests": manifests, "meta": meta["files"],
                "first": batch, "second": batch, "plan": []}

    def oracle_sequence(self, exp, outcomes):
        v = []
        batch = outcomes["batch"]
        names = [outcomes["meta"][p].get("name", p) for p in outcomes["manifests"]]
        outcomes["_needed"] = any(o["changed"] for o in outcomes["chain"])
        if batch["status"] != 0 or batch["exception"] or any(o["status"] != 0 or o["exception"] for o in outcomes["chain"]):
            return [{"clause": "run-failed", "key": "C14:run-failed:sequence:" + "+".join(names), "detail": {"batch": [batch["status"], batch["exception"]]}}]
        final_batch = W.apply_changes(outcomes["orig"], batch["changed"])
        for p in outcomes["manifests"]:
            a, b = final_batch.get(p), outcomes["chain_final"].get(p)
            if a != b:
                kind = p.rsplit("/", 1)[-1]
                na = parse_manifest(kind, dec(a))[1] if a else []
                nb = parse_manifest(kind, dec(b))[1] if b else []
                missing = sorted(set(nb) - set(na))
                extra = sorted(set(na) - set(nb))
                v.append({"clause": "sequence-manifest-differs", "key": f"C14:sequence-manifest-differs:{'missing' if missing else 'other'}:{'+'.join(names)}",
                          "detail": {"manifest": p, "missing_in_batch": missing, "extra_in_batch": extra, "codemods": exp["include"]}})
        return v

    def oracle(self, exp, outcomes):
        if exp["kind"] == "sequence":
            return self.oracle_sequence(exp, outcomes)
        v = []
        first, second = outcomes["first"], outcomes["second"]
        cid = exp["include"][0]
        need = NEEDS[cid]
        manifests = outcomes["manifests"]

        def mname(p):
            m = outcomes["meta"][p]
            return m.get("name", p)

        def add(clause, what, detail):
            if exp["faults"] == "write-fault":
                what += ":write-fault"  # findings under a failing write are keyed apart from the fault-free ones
            v.append({"clause": clause, "key": f"C14:{clause}:{what}", "detail": dict(detail, codemod=cid, manifests=[mname(p) for p in manifests], faults=exp["faults"])})

        if first["status"] != 0 or first["exception"]:
            add("run-failed", "+".join(sorted(mname(p) for p in manifests)) or "no-manifest",
                {"status": first["status"], "exception": first["exception"], "tb": (first["traceback"] or "")[-500:]})
            return v
        src_changed = any(p.endswith(".py") and p.rsplit("/", 1)[-1] != "setup.py" for p in first["changed"])
        outcomes["_needed"] = src_changed
        # (judged by the bytes the run leaves behind: a failed write that is put back is not an update)
        written = sorted({w["path"][4:] for w in first["writes"] if w["path"].startswith("<T>/") and w["path"][4:] in manifests and w["after"] is not None
                          and w["before"] != w["after"]} & set(first["changed"]))
        touched = sorted({m[1][4:] for m in first["mutations"] if m[1].startswith("<T>/") and m[1][4:] in manifests})
        faulted = {p["path"][4:] for p in outcomes["plan"]}
        if len(written) > 1:
            add("more-than-one-manifest", "+".join(mname(p) for p in written), {"written": written})
        for p in written:
            kind = p.rsplit("/", 1)[-1]
            before = dec(outcomes["orig"][p])
            after = dec(first["changed"][p]) if p in first["changed"] and first["changed"][p] and "meta" not in first["changed"][p] else before
            ok_b, names_b, det_b = parse_manifest(kind, before)
            ok_a, names_a, det_a = parse_manifest(kind, after)
            if ok_b and not ok_a:
                add("manifest-no-longer-parses", mname(p), {"path": p, "error": det_a})
                continue
            if ok_b:
                bad_new = [n for n in names_a if isinstance(n, str) and n.startswith("?") and n not in names_b]
                if bad_new or (kind == "requirements.txt" and (det_a or {}).get("unparsable_lines", []) != (det_b or {}).get("unparsable_lines", [])):
                    add("invalid-requirement-written", mname(p), {"path": p, "bad": bad_new or det_a})
                lost = [n for n in set(names_b) if names_a.count(n) < names_b.count(n)]
                if lost:
                    add("requirement-lost", mname(p), {"path": p, "lost": lost})
                for n in need:
                    cb, ca = names_b.count(n), names_a.count(n)
                    if cb > 0 and ca != cb:
                        add("already-declared-but-added", f"{mname(p)}:{n}", {"path": p, "package": n, "before": cb, "after": ca})
                    elif cb == 0 and ca != 1:
                        add("needed-requirement-count", f"{mname(p)}:{n}", {"path": p, "package": n, "after": ca})
            miss = lines_preserved(before, after)
            if miss:
                add("unrelated-content-lost", mname(p), {"path": p, "missing_lines": miss[:4]})
        if not src_changed and touched:
            add("manifest-touched-without-need", "+".join(mname(p) for p in touched), {"touched": touched})
        # re-run adds nothing to manifests
        re_m = sorted(p for p in second["changed"] if p in manifests)
        # (when the re-run rewrites the SOURCE again the codemod is not a fixed point on this input - C07's finding; a
        # dependency needed by that second rewrite is then legitimately looked for again)
        src_again = any(p.endswith(".py") and p.rsplit("/", 1)[-1] != "setup.py" for p in second["changed"])
        if second["status"] == 0 and re_m and not first["exception"] and not src_again:
            add("rerun-changes-manifest", "+".join(mname(p) for p in re_m), {"changed": re_m})
        # nothing could be updated: run succeeds and says so
        if src_changed and not written:
            res = (results_by_codemod(first["report"]).get(cid) or [{}])[0]
            probs = [p for p in check_report(first, outcomes["orig"]) if p[0] in STRUCTURAL]
            if probs:
                add("invalid-report", probs[0][0], {"problems": probs[:2]})
            desc = res.get("description", "")
            declared_somewhere = False
            for p in manifests:
                okb, nb, _ = parse_manifest(p.rsplit("/", 1)[-1], dec(outcomes["orig"][p]))
                if any(n in nb for n in need):
                    declared_somewhere = True
            # a plain requirements.txt that declares other packages only can always take the new line
            if exp["faults"] == "none":
                for p in manifests:
                    raw = dec(outcomes["orig"][p])
                    okb, nb, _ = parse_manifest(p.rsplit("/", 1)[-1], raw)
                    if p.rsplit("/", 1)[-1] == "requirements.txt" and okb and nb and raw.isascii() and b"\r" not in raw and not any(n in nb for n in need):
                        add("updatable-manifest-not-updated", mname(p), {"path": p, "declared": nb[:6]})
                        break
            failed_notice = "unable to automatically add" in desc
            success_notice = "automatically added this dependency" in desc
            if success_notice:
                add("report-claims-dependency-added", "+".join(sorted(mname(p) for p in manifests)) or "no-manifest", {"description_tail": desc[-300:]})
            elif not failed_notice and not declared_somewhere:
                add("no-failed-dependency-notice", "+".join(sorted(mname(p) for p in manifests)) or "no-manifest", {"description_tail": desc[-300:]})
        # a changeset naming a manifest must correspond to bytes written to it
        for r in (first["report"] or {}).get("results", []):
            for cs in r.get("changeset", []):
                if cs.get("path") in manifests and cs.get("path") not in written:
                    add("changeset-for-unwritten-manifest", mname(cs["path"]), {"path": cs["path"]})
        # a faulted manifest must stay byte-identical
        # (a manifest whose n-th READ fails may well have been updated before that read: the clause is about write faults)
        for p in faulted if exp["faults"] != "read-fault" else ():
            if p in first["changed"]:
                add("unwritable-manifest-changed" if exp["faults"] != "write-fault" else "manifest-damaged-by-failed-write", mname(p), {"path": p})
        return v

    def nontrivial(self, exp, outcomes):
        return bool(outcomes.get("_needed"))

    def shrink(self, exp):
        if exp["kind"] == "sequence":
            if len(exp["include"]) > 2:
                for j in range(len(exp["include"])):
                    c = copy.deepcopy(exp)
                    del c["include"][j]
                    yield c
            return
        ms = [j for j, f in enumerate(exp["files"]) if "manifest" in f]
        if len(ms) > 1:
            for j in ms:
                c = copy.deepcopy(exp)
                del c["files"][j]
                yield c
        if exp["faults"] != "none":
            c = copy.deepcopy(exp)
            c["faults"] = "none"
            yield c
        if exp["enum_seeds"] != [None, None]:
            c = copy.deepcopy(exp)
            c["enum_seeds"] = [None, None]
            yield c

    def sample(self, exp, outcomes):
        return {"kind": exp["kind"], "codemod": exp["include"], "manifests": [outcomes["meta"][p].get("name") for p in outcomes["manifests"]],
                "faults": outcomes["plan"], "first_changed": sorted(outcomes["first"]["changed"]), "second_changed": sorted(outcomes["second"]["changed"])}


CHECK = C14()
