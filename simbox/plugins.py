"""Verif plugin collection (DESIGN.md 3.4): harness-defined metadata around the repository's
regex / XML transformer pipelines, which no core codemod uses.  Added to the registry only for
executions whose spec says plugins=true, selected only by explicit --codemod-include."""
import functools

from . import sched


def _build():
    from codemodder.codemods.api import FindAndFixCodemod, RemediationCodemod
    from codemodder.codemods.base_codemod import Metadata, ReviewGuidance, ToolMetadata, ToolRule
    from codemodder.codemods.regex_transformer import (
        RegexTransformerPipeline,
        SastRegexTransformerPipeline,
    )
    from codemodder.codemods.xml_transformer import (
        ElementAttributeXMLTransformer,
        NewElement,
        NewElementXMLTransformer,
        XMLTransformerPipeline,
    )
    from codemodder.codetf import Reference
    from codemodder.registry import CodemodCollection
    from core_codemods.sonar.api import SonarDetector

    class _FF(FindAndFixCodemod):
        @property
        def origin(self):
            return "verif"

        @property
        def docs_module_path(self):
            return "core_codemods.docs"

    class _Rem(RemediationCodemod):
        @property
        def origin(self):
            return "verif"

        @property
        def docs_module_path(self):
            return "core_codemods.docs"

    def md(name, tool=None):
        return Metadata(
            name=name,
            summary=f"verif plugin {name}",
            review_guidance=ReviewGuidance.MERGE_WITHOUT_REVIEW,
            references=[Reference(url="https://example.invalid/" + name)],
            description=f"Harness-defined codemod exercising a repository pipeline: {name}.",
            tool=tool,
        )

    class AttrT(ElementAttributeXMLTransformer):
        change_description = "set secure attribute"

    class NewT(NewElementXMLTransformer):
        change_description = "add hardening element"

    regex = _FF(
        metadata=md("regex-http"),
        transformer=RegexTransformerPipeline(r"http://", "https://", "use https"),
        default_extensions=[".txt", ".html"],
    )
    xml_attr = _FF(
        metadata=md("xml-attr"),
        transformer=XMLTransformerPipeline(
            functools.partial(AttrT, name_attributes_map={"session": {"secure": "true"}})
        ),
        default_extensions=[".xml"],
    )
    xml_new = _FF(
        metadata=md("xml-newelem"),
        transformer=XMLTransformerPipeline(
            functools.partial(NewT, new_elements=[NewElement("hardening", "config", "on")])
        ),
        default_extensions=[".xml"],
    )
    sast_regex = _Rem(
        metadata=md(
            "sast-regex-http",
            tool=ToolMetadata(name="Sonar", rules=[ToolRule(id="verif:S9999", name="plain http", url=None)]),
        ),
        detector=SonarDetector(),
        transformer=SastRegexTransformerPipeline(r"http://", "https://", "use https"),
        default_extensions=[".txt", ".html"],
        requested_rules=["verif:S9999"],
    )
    return CodemodCollection(origin="verif", codemods=[regex, xml_attr, xml_new, sast_regex])


def install(registry_module):
    orig = registry_module.load_registered_codemods

    def load_registered_codemods(*a, **kw):
        reg = orig(*a, **kw)
        sim = sched.CURRENT
        if sim is not None and getattr(sim, "plugins", False):
            reg.add_codemod_collection(_build())
        return reg

    registry_module.load_registered_codemods = load_registered_codemods
