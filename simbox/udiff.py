"""Unified-diff applier with the line model of diff consumers: lines end at '\\n' only
(patch(1), git, CodeTF viewers).  Deliberately strict: no fuzz, no second line model."""
import re


class PatchError(Exception):
    pass


_HUNK = re.compile(r"^@@ -(\d+)(?:,(\d+))? \+(\d+)(?:,(\d+))? @@")


def split_nl(text: str):
    """split keeping terminators, at '\\n' only"""
    if text == "":
        return []
    parts = text.split("\n")
    lines = [p + "\n" for p in parts[:-1]]
    if parts[-1] != "":
        lines.append(parts[-1])
    return lines


def _same(src_line, content, is_last, last_diff_line=False):
    if src_line == content:
        return True
    # a last line without terminator is shown with one in the diff
    if is_last and not src_line.endswith("\n") and src_line + "\n" == content:
        return True
    # the diff text itself may lack a final newline: its last line then shows a terminated source line without one
    if last_diff_line and not content.endswith("\n") and src_line == content + "\n":
        return True
    # last line of the file: at most one final line terminator (\n, \r\n or, in a CR-terminated file, \r) may differ
    if is_last:
        # the "\n" at the end of a diff line may be the artefact added when diff lines are joined
        cands = {content, strip_one_final_newline(content)}
        if content.endswith("\n"):
            cands |= {content[:-1], strip_one_final_newline(content[:-1])}
        if src_line in cands or strip_one_final_newline(src_line) in cands:
            return True
    return False


def apply_unified(diff_text: str, before_text: str) -> str:
    src = split_nl(before_text)
    dl = split_nl(diff_text)
    out = []
    pos = 0
    i = 0
    n = len(dl)
    seen_hunk = False
    while i < n:
        line = dl[i]
        if not seen_hunk and (line.startswith("--- ") or line.startswith("+++ ") or line.rstrip("\n") in ("---", "+++")):
            i += 1
            continue
        m = _HUNK.match(line)
        if not m:
            raise PatchError(f"unexpected diff line {i}: {line[:60]!r}")
        seen_hunk = True
        a = int(m.group(1))
        b = int(m.group(2)) if m.group(2) is not None else 1
        d = int(m.group(4)) if m.group(4) is not None else 1
        start = a - 1 if b > 0 else a
        if start < pos or start > len(src):
            raise PatchError(f"hunk start {a} out of order/range (file has {len(src)} lines)")
        out.extend(src[pos:start])
        pos = start
        i += 1
        used_old = used_new = 0
        while i < n and (used_old < b or used_new < d):
            h = dl[i]
            tag, content = h[:1], h[1:]
            last_dl = i == n - 1
            if content == "" and last_dl and tag in (" ", "-", "+"):
                # artefact of diffing text.split("\n") lists: the empty string after the final newline shows up as a
                # phantom last line without terminator. It only encodes the presence of a final newline.
                if tag in (" ", "-"):
                    used_old += 1
                if tag in (" ", "+"):
                    used_new += 1
                i += 1
                continue
            if tag == " ":
                if pos >= len(src) or not _same(src[pos], content, pos == len(src) - 1, last_dl):
                    raise PatchError(f"context mismatch at source line {pos + 1}: {content[:60]!r}")
                # a last source line without terminator that the diff shows with one: keep the diff's rendering, so
                # that lines added after it do not get glued to it
                out.append(content if (content.endswith("\n") and not src[pos].endswith("\n")) else src[pos])
                pos += 1
                used_old += 1
                used_new += 1
            elif tag == "-":
                if pos >= len(src) or not _same(src[pos], content, pos == len(src) - 1, last_dl):
                    raise PatchError(f"removed line mismatch at source line {pos + 1}: {content[:60]!r}")
                pos += 1
                used_old += 1
            elif tag == "+":
                out.append(content)
                used_new += 1
            elif tag == "\\":
                pass
            else:
                raise PatchError(f"bad hunk line {i}: {h[:60]!r}")
            i += 1
        if used_old != b or used_new != d:
            raise PatchError(f"hunk counts do not add up: -{used_old}/{b} +{used_new}/{d}")
    if not seen_hunk:
        raise PatchError("no hunk in diff")
    out.extend(src[pos:])
    return "".join(out)


def strip_one_final_newline(s: str) -> str:
    if s.endswith("\r\n"):
        return s[:-2]
    if s.endswith("\n") or s.endswith("\r"):
        return s[:-1]
    return s


def equal_up_to_final_newline(a: str, b: str) -> bool:
    return a == b or strip_one_final_newline(a) == strip_one_final_newline(b)
