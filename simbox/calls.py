"""In-process harness calls executed inside the forked child instead of the CLI (spec["call"]).
Used by C12(a): drives the repository's ResultSet classes and accumulation loops through their
public interface and returns what they contain."""
import json
import os
import traceback
from pathlib import Path


def _dump(rs, root):
    """contents of a ResultSet through its public accessors -> sorted list of tuples"""
    out = []
    ctx = type("Ctx", (), {"directory": Path("/proj")})()
    for rule in rs.all_rule_ids():
        for f in rs.files_for_rule(rule):
            f = Path(f)
            q = f if f.is_absolute() else Path("/proj") / f
            try:
                res = rs.results_for_rule_and_file(ctx, rule, q)
            except Exception:
                res = rs.get(rule, {}).get(f, [])
            for r in res:
                for loc in r.locations:
                    if Path(loc.file) != f:
                        continue
                    out.append([
                        str(rule), str(f), loc.start.line, loc.start.column, loc.end.line, loc.end.column,
                        str(getattr(r, "finding_id", None)),
                        str(r.finding.rule.id) if r.finding is not None else None,
                    ])
    return sorted(out, key=json.dumps)


def merge(spec, root):
    """spec["call"] = {"name": "merge", "tool": sonar|semgrep|defectdojo|codeql, "files": [names in R], "ops": [...]}
    ops: ["load", i] push from_json/from_sarif(files[i]);  ["or"] pop b, a push a|b;  ["ior"] pop b, a; a |= b push a;
         ["accumulate", [i, j, ...]] push the repository's accumulation loop over those files (in that order)"""
    c = spec["call"]
    tool = c["tool"]
    R = os.path.join(root, "R")
    paths = [os.path.join(R, n) for n in c["files"]]
    if tool == "sonar":
        from core_codemods.sonar.api import process_sonar_findings as acc
        from core_codemods.sonar.results import SonarResultSet

        load = SonarResultSet.from_json
    elif tool == "defectdojo":
        from core_codemods.defectdojo.api import _process_results as acc
        from core_codemods.defectdojo.results import DefectDojoResultSet

        load = DefectDojoResultSet.from_json
    elif tool == "semgrep":
        from codemodder.codemods.semgrep import process_semgrep_findings as acc
        from codemodder.semgrep import SemgrepResultSet

        load = SemgrepResultSet.from_sarif
    elif tool == "codeql":
        from codemodder.codemods.codeql import process_codeql_findings as acc
        from codemodder.codeql import CodeQLResultSet

        load = CodeQLResultSet.from_sarif
    else:
        raise ValueError(tool)
    stack = []
    steps = []
    for op in c["ops"]:
        try:
            if op[0] == "load":
                # the loaders are memoised (functools.cache): like the repository's own accumulation loops, never use a
                # loaded set as the left operand of an in-place merge - start from a fresh accumulator
                loaded = load(paths[op[1]])
                fresh = type(loaded)()
                fresh |= loaded
                stack.append(fresh)
            elif op[0] == "or":
                b = stack.pop()
                a = stack.pop()
                before_a, before_b = _dump(a, root), _dump(b, root)
                r = a | b
                steps.append({"op": op, "operands_unchanged": _dump(a, root) == before_a and _dump(b, root) == before_b})
                stack.append(r)
            elif op[0] == "ior":
                b = stack.pop()
                a = stack.pop()
                before_b = _dump(b, root)
                a |= b
                steps.append({"op": op, "operands_unchanged": _dump(b, root) == before_b})
                stack.append(a)
            elif op[0] == "accumulate":
                stack.append(acc(tuple(paths[i] for i in op[1])))
            steps.append({"op": op, "top": _dump(stack[-1], root), "type": type(stack[-1]).__name__})
        except Exception as e:
            steps.append({"op": op, "error": f"{type(e).__name__}: {e}", "tb": traceback.format_exc()[-800:]})
            break
    return {"steps": steps}


CALLS = {"merge": merge}
