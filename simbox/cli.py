"""Entry point (a script, not `python -m`, to avoid double import)."""
import argparse
import importlib
import os
import sys

HERE = os.path.dirname(os.path.abspath(__file__))
sys.path.insert(0, os.path.dirname(HERE))


def main():
    ap = argparse.ArgumentParser()
    ap.add_argument("id")
    ap.add_argument("--tier", default=os.environ.get("VERIF_TIER", "quick"), choices=["quick", "thorough"])
    ap.add_argument("--replay")
    ap.add_argument("--n", type=int)
    ap.add_argument("--wall", type=int)
    a = ap.parse_args()
    seed = int(os.environ.get("VERIF_SEED", "20261004"))
    jobs = int(os.environ.get("VERIF_JOBS", "16"))
    from simbox import framework

    if a.id == "selftest":
        from simbox import selftest

        return selftest.main(a.tier, seed, jobs)
    if a.id == "setup":
        from simbox import memo

        assert os.path.exists("/venv/bin/semgrep"), "semgrep binary missing"
        os.makedirs(os.path.join(os.path.dirname(HERE), ".cache", "semgrep"), exist_ok=True)
        return memo.unpack()
    if a.id == "memo-pack":
        from simbox import memo

        return memo.pack()
    mod = importlib.import_module("checks." + a.id.lower())
    check = mod.CHECK
    if a.n or a.wall:
        b = dict(check.budgets[a.tier])
        if a.n:
            b["n"] = a.n
        if a.wall:
            b["wall"] = a.wall
        check.budgets = dict(check.budgets)
        check.budgets[a.tier] = b
    if a.replay:
        return framework.replay(check, a.replay, jobs)
    return framework.run_check(check, a.tier, seed, jobs)


if __name__ == "__main__":
    try:
        rc = main()
    except SystemExit:
        raise
    except BaseException:
        import traceback

        traceback.print_exc()
        print("HARNESS-ERROR: unhandled exception in the coordinator")
        rc = 3
    sys.stdout.flush()
    os._exit(rc if isinstance(rc, int) else 3)
