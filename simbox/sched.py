"""Deterministic scheduler and the simulated thread pool (stand-in for
concurrent.futures.ThreadPoolExecutor).  Real threading.Thread workers, exactly one of
{driver, worker_1..worker_n} runs at any instant (baton passing with Events); every choice of
who runs next is drawn from one seeded PRNG (or taken from an explicit decision list on replay).
"""
import _thread
import faulthandler
import zlib
import hashlib
import random
import sys
import threading

SIM_CPU_COUNT = 16  # fixed simulated cpu count: default max_workers = min(32, cpu + 4) = 20
WATCHDOG_S = 90.0

_real_thread_start = threading.Thread.start


_HS = {}


def hash_str(s):
    """stable small hash of a file name (independent of PYTHONHASHSEED)"""
    v = _HS.get(s)
    if v is None:
        v = _HS[s] = zlib.crc32(s.encode("utf-8", "replace"))
    return v


class SimStuck(RuntimeError):
    pass


class StepCapExceeded(RuntimeError):
    pass


class Sim:
    """Per-execution simulator state. One instance per forked child (module global CURRENT)."""

    def __init__(self, sched_spec: dict, repo_src: str):
        sched_spec = dict(sched_spec or {})
        self.seed = sched_spec.get("seed", 0)
        self.policy = sched_spec.get("policy", "fifo")
        self.line_p = float(sched_spec.get("line_p", 0.0))
        self.explicit = sched_spec.get("explicit")  # list of decisions or None
        self.explicit_pos = 0
        self.explicit_diverged = False
        self.pct_d = int(sched_spec.get("d", 2))
        self.starve_k = sched_spec.get("k", 0)
        self.step_cap = int(sched_spec.get("step_cap", 2_000_000))
        self.rng = random.Random(f"sched:{self.seed}")
        self.rng_line = random.Random(f"line:{self.seed}")
        self.rng_clock = random.Random(f"clock:{self.seed}")
        self.repo_src = repo_src
        self.events = []  # coarse event log (I/O level), list of lists
        self.decisions = []  # every scheduling decision, compact
        self.digest = hashlib.sha256()
        self.steps = 0
        self.preemptions = {"io": 0, "line": 0, "task-start": 0, "other": 0}
        self.workers_by_ident = {}
        self.pools = []
        self.vclock = 1_700_000_000.0  # virtual epoch seconds
        self.vclock0 = self.vclock
        self.codemod_index = -1
        self.codemod_ids = []
        self.inflight = 0
        self.max_inflight = 0
        self.max_inflight_pool = 0
        self.inflight_files = []
        self.overlap_pairs = set()
        self.max_workers_seen = []
        self.uncontrolled_threads = 0
        self.pct_prio = {}
        self.pct_change_points = None
        self.rr_last = -1
        self.tls = threading.local()
        self.lock = threading.Lock()  # only for counters touched by uncontrolled threads
        self.third_not_started_probe = 0
        self.line_hits = {}
        self.seed_int = zlib.crc32(str(self.seed).encode())
        self.line_threshold = int(self.line_p * 4294967296)
        self.debug_lines = [] if sched_spec.get("debug_lines") else None
        self.debug_ids = [] if sched_spec.get("debug_ids") else None

    # ---- logging ------------------------------------------------------------------
    def log(self, *ev):
        ev = list(ev)
        if self.debug_ids is not None:
            self.debug_ids.append((len(self.events), id(object()), id([])))
        self.events.append(ev)
        self.digest.update(repr(ev).encode("utf-8", "backslashreplace"))
        self.tick()

    def tick(self, lo=0.0005, hi=0.004):
        self.vclock += self.rng_clock.uniform(lo, hi)

    # ---- worker identity ------------------------------------------------------------
    def current_worker(self):
        return self.workers_by_ident.get(threading.get_ident())

    def in_worker(self):
        return threading.get_ident() in self.workers_by_ident

    # ---- pre-emption ----------------------------------------------------------------
    def yield_point(self, kind: str):
        w = self.current_worker()
        if w is None:
            # main / driver thread: give background pools (shutdown(wait=False)) a chance
            self.main_yield()
            return
        self.preemptions[kind if kind in self.preemptions else "other"] += 1
        w.park()

    def main_yield(self):
        if getattr(self.tls, "driving", False):
            return
        for pool in list(self.pools):
            if pool.has_unfinished() and not pool.driving:
                k = 0
                while self.rng.random() < 0.5 and k < 64:
                    k += 1
                for _ in range(k):
                    if not pool.has_unfinished():
                        break
                    pool.step()

    def drain(self):
        """Run everything that is still pending (models interpreter-exit join)."""
        for pool in list(self.pools):
            while pool.has_unfinished():
                pool.step()
            pool.stop_threads()

    # ---- choice ---------------------------------------------------------------------
    def choose(self, cands, start_idx=None):
        """cands: sorted list of ints; task index >= 0 = resume that task, -1 = start next
        (start_idx = index of the task that would be started)."""
        self.steps += 1
        if self.steps > self.step_cap:
            raise StepCapExceeded(f"more than {self.step_cap} scheduling steps")
        self._start_idx = start_idx
        c = self._choose(cands)
        self.decisions.append(c)
        self.digest.update(b"d%d;" % c)
        return c

    def _choose(self, cands):
        if len(cands) == 1:
            c = cands[0]
            if self.explicit is not None and self.explicit_pos < len(self.explicit):
                self.explicit_pos += 1
            return c
        if self.explicit is not None:
            if self.explicit_pos < len(self.explicit):
                c = self.explicit[self.explicit_pos]
                self.explicit_pos += 1
                if c in cands:
                    return c
                self.explicit_diverged = True
            # after the explicit prefix: run-to-completion fifo
            running = [c for c in cands if c >= 0]
            return min(running) if running else -1
        p = self.policy
        running = [c for c in cands if c >= 0]
        if p == "uniform":
            return self.rng.choice(cands)
        if p in ("fifo", "fifo-run-to-completion"):
            return min(running) if running else -1
        if p in ("reverse", "reverse-run-to-completion", "lifo"):
            if -1 in cands:
                return -1
            return max(running)
        if p == "round-robin":
            eff = lambda c: c if c >= 0 else self._start_idx  # noqa: E731
            later = [c for c in cands if eff(c) > self.rr_last]
            c = min(later or cands, key=eff)
            self.rr_last = eff(c)
            return c
        if p == "eager-start":
            if -1 in cands:
                return -1
            return self.rng.choice(cands)
        if p == "starve":
            eff = lambda c: c if c >= 0 else self._start_idx  # noqa: E731
            ok = [c for c in cands if c != self.starve_k or eff(c) != self.starve_k]
            ok = [c for c in ok if not (c >= 0 and c == self.starve_k)]
            if ok:
                return self.rng.choice(ok)
            return cands[0]
        if p == "pct":
            if self.pct_change_points is None:
                self.pct_change_points = set(
                    self.rng.randrange(1, 400) for _ in range(self.pct_d)
                )
            if self.steps in self.pct_change_points and running:
                top = max(running, key=lambda c: self._prio(c))
                self.pct_prio[top] = -self.steps  # demote
            return max(cands, key=lambda c: self._prio(c))
        return self.rng.choice(cands)

    def _prio(self, c):
        if c not in self.pct_prio:
            self.pct_prio[c] = self.rng.random()
        return self.pct_prio[c]

    # ---- line tracing ---------------------------------------------------------------
    def trace_global(self, frame, event, arg):
        if event == "call" and frame.f_code.co_filename.startswith(self.repo_src):
            return self.trace_local
        return None

    def trace_local(self, frame, event, arg):
        if event == "line":
            if self.debug_lines is not None:
                self.debug_lines.append((frame.f_code.co_filename[len(self.repo_src):], frame.f_lineno))
            # The decision is a pure function of (seed, task, source line, k-th visit of that line by that task), not of
            # the number of lines executed so far: code under test that iterates an address-ordered set may execute a
            # few lines more or less from one run to the next (object addresses inside worker threads are not fully
            # reproducible, see DESIGN 10.2); with keyed decisions such a wobble shifts at most its own pre-emption points.
            key = (getattr(self.tls, "task_idx", -1), frame.f_code.co_filename, frame.f_lineno)
            k = self.line_hits.get(key, 0) + 1
            self.line_hits[key] = k
            h = zlib.crc32(b"%d|%d|%d|%d|%d" % (self.seed_int, key[0], hash_str(key[1]), key[2], k))
            if h < self.line_threshold:
                self.yield_point("line")
        return self.trace_local

    # ---- in-flight accounting (called from the _process_file wrapper) ---------------
    def file_enter(self, rel):
        with self.lock:
            for other in self.inflight_files:
                self.overlap_pairs.add(tuple(sorted((other, rel))))
            self.inflight_files.append(rel)
            self.inflight = len(self.inflight_files)
            if self.inflight > self.max_inflight:
                self.max_inflight = self.inflight

    def file_exit(self, rel):
        with self.lock:
            try:
                self.inflight_files.remove(rel)
            except ValueError:
                pass
            self.inflight = len(self.inflight_files)


CURRENT: Sim | None = None


class _Task:
    __slots__ = ("idx", "fn", "args", "kwargs", "future", "finished", "started")

    def __init__(self, idx, fn, args, kwargs, future):
        self.idx = idx
        self.fn = fn
        self.args = args
        self.kwargs = kwargs
        self.future = future
        self.finished = False
        self.started = False


class SimFuture:
    def __init__(self, pool, idx):
        self._pool = pool
        self._idx = idx
        self._done = False
        self._cancelled = False
        self._result = None
        self._exc = None
        self._callbacks = []

    def done(self):
        return self._done or self._cancelled

    def cancelled(self):
        return self._cancelled

    def running(self):
        t = self._pool._tasks[self._idx]
        return t.started and not t.finished

    def cancel(self):
        t = self._pool._tasks[self._idx]
        if t.started:
            return False
        if not self._cancelled:
            self._cancelled = True
            if t in self._pool._queue:
                self._pool._queue.remove(t)
            t.finished = True
            self._fire()
        return True

    def _fire(self):
        for cb in self._callbacks:
            try:
                cb(self)
            except Exception:
                pass

    def add_done_callback(self, fn):
        if self.done():
            fn(self)
        else:
            self._callbacks.append(fn)

    def _wait(self):
        if not self.done():
            self._pool._drive(lambda: self.done())

    def result(self, timeout=None):
        self._wait()
        if self._cancelled:
            from concurrent.futures import CancelledError

            raise CancelledError()
        if self._exc is not None:
            raise self._exc
        return self._result

    def exception(self, timeout=None):
        self._wait()
        return self._exc

    def _set(self, result=None, exc=None):
        self._result = result
        self._exc = exc
        self._done = True
        self._fire()


class _Worker:
    """One pool thread. The baton is a pair of pre-allocated raw locks (no Python-level allocation happens between
    handing the baton over and blocking, so which of the two threads the OS runs in that window cannot perturb the heap:
    id()-ordered iteration inside the code under test - and with it the event log - replays exactly)."""

    def __init__(self, pool, slot):
        self.pool = pool
        self.slot = slot
        self.wake = _thread.allocate_lock()
        self.wake.acquire()  # held: the worker blocks on it until the driver releases it
        # bound methods are created once: creating them inside the hand-over window would be an allocation there
        self._wake_acquire = self.wake.acquire
        self._wake_release = self.wake.release
        self._driver_release = pool._driver_lock.release
        self.task = None
        self.stop = False
        self.thread = threading.Thread(target=self._main, name=f"simworker-{slot}", daemon=True)
        self.thread._sim_controlled = True
        _real_thread_start(self.thread)
        # wait until the new thread has finished its start-up allocations and is parked
        if not pool._driver_acquire(True, WATCHDOG_S):
            raise SimStuck("worker thread did not start")

    def _main(self):
        sim = self.pool.sim
        sim.workers_by_ident[threading.get_ident()] = self
        if sim.line_p > 0:
            sys.settrace(sim.trace_global)
        release_driver = self._driver_release
        wake_acquire = self._wake_acquire
        release_driver()  # ready
        while True:
            wake_acquire()
            if self.stop:
                return
            task = self.task
            sim.tls.task_idx = task.idx
            try:
                res = task.fn(*task.args, **task.kwargs)
                task.finished = True
                task.future._set(result=res)
            except BaseException as e:  # noqa: stored in the future like the real executor
                task.finished = True
                task.future._set(exc=e)
            self.task = None
            release_driver()

    def park(self):
        # hand the baton back to the driver and wait to be resumed
        self._driver_release()
        self._wake_acquire()


class SimThreadPool:
    """Stand-in for ThreadPoolExecutor: <= max_workers tasks in flight, FIFO dispatch,
    map() yields in submission order and re-raises at iteration, shutdown(wait=True) joins."""

    def __init__(self, max_workers=None, thread_name_prefix="", initializer=None, initargs=()):
        sim = CURRENT
        if sim is None:
            raise RuntimeError("SimThreadPool used without a simulator")
        if max_workers is None:
            max_workers = min(32, SIM_CPU_COUNT + 4)
        if not isinstance(max_workers, int):
            raise TypeError("max_workers must be int")
        if max_workers <= 0:
            raise ValueError("max_workers must be greater than 0")
        if initializer is not None and not callable(initializer):
            raise TypeError("initializer must be a callable")
        self.sim = sim
        self._max_workers = max_workers
        self._tasks = []
        self._queue = []
        self._workers = []
        self._driver_lock = _thread.allocate_lock()
        self._driver_lock.acquire()  # held while the driver runs; a worker releases it to hand the baton back
        self._driver_acquire = self._driver_lock.acquire
        self._shutdown = False
        self.driving = False
        self._initializer = initializer
        self._initargs = initargs
        sim.pools.append(self)
        sim.max_workers_seen.append(max_workers)
        sim.log("pool", "create", max_workers)

    # -- executor API -------------------------------------------------------------------
    def submit(self, fn, /, *args, **kwargs):
        if self._shutdown:
            raise RuntimeError("cannot schedule new futures after shutdown")
        idx = len(self._tasks)
        fut = SimFuture(self, idx)
        t = _Task(idx, fn, args, kwargs, fut)
        self._tasks.append(t)
        self._queue.append(t)
        self.sim.log("pool", "submit", idx)
        # workers of the real executor may already run while the caller keeps submitting
        if self.sim.policy in ("uniform", "pct", "starve") and self.sim.explicit is None:
            k = 0
            while self.sim.rng.random() < 0.25 and k < 16:
                k += 1
            for _ in range(k):
                if self.has_unfinished():
                    self.step()
        return fut

    def map(self, fn, *iterables, timeout=None, chunksize=1):
        futs = [self.submit(fn, *args) for args in zip(*iterables)]

        def gen():
            try:
                futs.reverse()
                while futs:
                    yield futs.pop().result()
            finally:
                for f in futs:
                    f.cancel()

        return gen()

    def shutdown(self, wait=True, *, cancel_futures=False):
        self._shutdown = True
        if cancel_futures:
            for t in list(self._queue):
                t.future.cancel()
        if wait:
            self._drive(lambda: not self.has_unfinished())
            self.stop_threads()
        self.sim.log("pool", "shutdown", bool(wait))

    def __enter__(self):
        return self

    def __exit__(self, exc_type, exc, tb):
        self.shutdown(wait=True)
        return False

    # -- driver -------------------------------------------------------------------------
    def has_unfinished(self):
        return any(not t.finished for t in self._tasks)

    def _active(self):
        return [w for w in self._workers if w.task is not None]

    def _drive(self, until):
        if self.sim.in_worker():
            raise SimStuck("blocking pool operation from inside a pool worker is not modelled")
        prev = getattr(self.sim.tls, "driving", False)
        self.sim.tls.driving = True
        self.driving = True
        try:
            while not until():
                if not self.has_unfinished():
                    break
                self.step()
        finally:
            self.driving = False
            self.sim.tls.driving = prev

    def step(self):
        sim = self.sim
        active = self._active()
        cands = sorted(w.task.idx for w in active)
        if self._queue and len(active) < self._max_workers:
            cands = [-1] + cands
        if not cands:
            raise SimStuck("no runnable task but unfinished tasks remain")
        c = sim.choose(cands, self._queue[0].idx if self._queue else None)
        if c == -1:
            task = self._queue.pop(0)
            idle = [w for w in self._workers if w.task is None]
            if idle:
                w = idle[0] if sim.policy != "uniform" else sim.rng.choice(idle)
            else:
                w = _Worker(self, len(self._workers))
                self._workers.append(w)
            w.task = task
            task.started = True
            n_active = len(self._active())
            if n_active > sim.max_inflight_pool:
                sim.max_inflight_pool = n_active
            if n_active >= 2 and self._queue:
                sim.third_not_started_probe += 1
            sim.log("pool", "start", task.idx, w.slot)
        else:
            w = next(w for w in active if w.task.idx == c)
        w._wake_release()
        if not self._driver_acquire(True, WATCHDOG_S):
            faulthandler.dump_traceback(file=sys.__stderr__)
            raise SimStuck("worker did not yield or finish within the watchdog interval")
        if w.task is None:
            sim.log("pool", "finish", c if c >= 0 else task.idx)

    def stop_threads(self):
        for w in self._workers:
            if w.task is None and not w.stop:
                w.stop = True
                w._wake_release()
                w.thread.join(5)
                self.sim.workers_by_ident.pop(w.thread.ident, None)


def sim_as_completed(fs, timeout=None):
    """pool-aware concurrent.futures.as_completed: yields futures in completion order as the
    scheduler produces it."""
    fs = list(fs)
    pending = [f for f in fs if not f.done()]
    for f in fs:
        if f.done():
            yield f
    while pending:
        pool = pending[0]._pool
        pool._drive(lambda: any(f.done() for f in pending))
        done_now = [f for f in pending if f.done()]
        if not done_now:
            raise SimStuck("as_completed: nothing completes")
        for f in done_now:
            pending.remove(f)
            yield f


def sim_wait(fs, timeout=None, return_when="ALL_COMPLETED"):
    from concurrent.futures import wait as _w  # noqa

    fs = list(fs)
    if return_when == "ALL_COMPLETED":
        for f in fs:
            f._wait()
    else:
        pending = [f for f in fs if not f.done()]
        if pending and len(pending) == len(fs):
            pending[0]._pool._drive(lambda: any(f.done() for f in fs))
    import collections

    R = collections.namedtuple("DoneAndNotDoneFutures", "done not_done")
    return R({f for f in fs if f.done()}, {f for f in fs if not f.done()})


def thread_start_spy(self):
    if not getattr(self, "_sim_controlled", False) and CURRENT is not None:
        CURRENT.uncontrolled_threads += 1
        CURRENT.log("uncontrolled-thread", self.name)
    return _real_thread_start(self)
