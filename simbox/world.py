"""World specs -> materialised worlds.  Pure functions of (spec, vendored corpus); coordinator side.

world spec:
 {"files": [ {"path": rel, "snippets": [corpus index, ...], "layout": {...}}      # python source built from corpus
             {"path": rel, "raw": enc}                                            # literal content
             {"path": rel, "manifest": manifest corpus index} ],
  "symlinks": {rel: target}, "dirs": [...], "outside": {rel: enc}, "order": [...],
  "sast": {"split": ..}}   # how findings are delivered, see build_results
"""
import ast
import copy
import json
import os
from functools import lru_cache

from .util import dec, enc

HERE = os.path.dirname(os.path.abspath(__file__))
CORPUS = os.path.join(os.path.dirname(HERE), "corpus")

DEP_CODEMODS = {
    "pixee:python/flask-enable-csrf-protection": "flask-wtf",
    "pixee:python/sandbox-process-creation": "security",
    "pixee:python/url-sandbox": "security",
    "pixee:python/use-defusedxml": "defusedxml",
    "pixee:python/harden-pickle-load": "fickling",
}
# codemods that legitimately look at sibling files (DESIGN.md 3.1)
SIBLING_DEPENDENT = {
    "pixee:python/django-debug-flag-on",
    "pixee:python/django-session-cookie-secure-off",
    "pixee:python/order-imports",
    "sonar:python/django-debug-flag-on",  # defensive: not registered today
} | set(DEP_CODEMODS)


@lru_cache(None)
def snippets():
    out = []
    with open(os.path.join(CORPUS, "snippets.jsonl"), encoding="utf-8") as f:
        for i, line in enumerate(f):
            r = json.loads(line)
            r["idx"] = i
            out.append(r)
    return out


@lru_cache(None)
def manifests():
    out = []
    with open(os.path.join(CORPUS, "manifests.jsonl"), encoding="utf-8") as f:
        for i, line in enumerate(f):
            r = json.loads(line)
            r["idx"] = i
            out.append(r)
    return out


@lru_cache(None)
def by_codemod():
    d = {}
    for r in snippets():
        d.setdefault(r["codemod"], []).append(r)
    return d


def triggering(codemod_id):
    return [r for r in by_codemod().get(codemod_id, []) if r["expect_change"]]


def parses(text: str) -> bool:
    try:
        ast.parse(text)
        return True
    except (SyntaxError, ValueError, RecursionError):
        return False


def apply_layout(text: str, layout: dict) -> str:
    """text uses \\n. Returns the final text (still str; BOM as \\ufeff)."""
    layout = layout or {}
    if layout.get("wrap") in ("def", "class", "if"):
        ind = "\t" if layout.get("tabs") else "    "
        head = {"def": "def _wrapped():", "class": "class _Wrapped:", "if": "if True:"}[layout["wrap"]]
        body = "".join((ind + l if l.strip() else l) for l in text.splitlines(keepends=True))
        if not body.strip():
            body = ind + "pass\n"
        text = head + "\n" + body
    k = int(layout.get("offset", 0))
    if k:
        text = "".join(f"# pad {i}\n" for i in range(k)) + text
    if layout.get("nonascii"):
        if not text.endswith("\n"):
            text += "\n"
        text += 's_unicode_\u00df = "h\u00e9llo \u2713 \u65e5\u672c"\n'
    ex = layout.get("exotic")
    if ex:
        if not text.endswith("\n"):
            text += "\n"
        text += {
            "ff": "x_ff = 1\n\x0c\ny_ff = 2\n",
            "vt-in-str": 'x_vt = "a\x0bb"\n',
            "u2028-in-str": 'x_ls = "a\u2028b"\n',
            "nel-in-str": 'x_nel = "a\x85b"\n',
            "ff-in-str": 'x_ffs = "a\x0cb"\n',
            "cr-in-comment": "x_cr = 1  # a\rb\n",
        }[ex]
    if layout.get("final_nl") is False:
        text = text.rstrip("\n")
    if layout.get("eol") == "crlf":
        text = text.replace("\r\n", "\n").replace("\n", "\r\n")
    elif layout.get("eol") == "cr":
        text = text.replace("\r\n", "\n").replace("\n", "\r")
    if layout.get("bom"):
        text = "\ufeff" + text
    return text


def _shift_results(obj, k, old_path, new_path):
    """shift every line key by k and retarget file paths in a tool result document"""
    if isinstance(obj, dict):
        out = {}
        for key, v in obj.items():
            if key in ("startLine", "endLine", "line") and isinstance(v, int):
                out[key] = v + k
            elif key in ("component", "uri", "file_path") and isinstance(v, str):
                if v == old_path:
                    out[key] = new_path
                elif v.endswith(":" + old_path):
                    out[key] = v[: -len(old_path)] + new_path
                else:
                    out[key] = v
            else:
                out[key] = _shift_results(v, k, old_path, new_path)
        return out
    if isinstance(obj, list):
        return [_shift_results(x, k, old_path, new_path) for x in obj]
    return obj


def snippet_findings(rec, new_path, offset):
    """-> (tool, list of finding objects in the tool's own format) for a SAST corpus record"""
    if not rec.get("tool") or not rec.get("results"):
        return None, []
    doc = json.loads(rec["results"])
    doc = _shift_results(doc, offset, rec["relpath"], new_path)
    tool = rec["tool"]
    if tool == "sonar":
        kind = "hotspots" if "hotspots" in doc and "issues" not in doc else "issues"
        return "sonar:" + kind, list(doc.get(kind) or [])
    if tool == "semgrep":
        res = []
        for run in doc.get("runs", []):
            res.extend(run.get("results", []))
        return "semgrep", res
    if tool == "defectdojo":
        return "defectdojo", list(doc.get("results") or [])
    return None, []


def make_result_doc(kind, findings):
    if kind == "sonar:issues":
        return {"issues": findings}
    if kind == "sonar:hotspots":
        return {"hotspots": findings}
    if kind == "semgrep":
        return {"version": "2.1.0", "runs": [{"tool": {"driver": {"name": "Semgrep OSS", "rules": []}}, "results": findings}]}
    if kind == "defectdojo":
        return {"results": findings}
    raise ValueError(kind)


RESULT_OPTION = {
    "sonar:issues": "--sonar-issues-json",
    "sonar:hotspots": "--sonar-hotspots-json",
    "semgrep": "--sarif",
    "defectdojo": "--defectdojo-findings-json",
}


def build_world(spec):
    """-> (world dict for the runner, meta) ; meta: per-file info + findings per kind"""
    files = {}
    meta = {"files": {}, "findings": {}, "parse_ok": True}
    for f in spec.get("files", []):
        path = f["path"]
        if "raw" in f:
            files[path] = f["raw"] if isinstance(f["raw"], dict) else enc(dec(f["raw"]))
            meta["files"][path] = {"kind": "raw"}
            continue
        if "manifest" in f:
            m = manifests()[f["manifest"]]
            files[path] = m["content"]
            meta["files"][path] = {"kind": "manifest", "manifest": m["idx"], "name": m["name"]}
            continue
        recs = [snippets()[i] for i in f["snippets"]]
        layout = f.get("layout") or {}
        text = "\n".join(r["input"] if r["input"].endswith("\n") or not r["input"] else r["input"] + "\n" for r in recs)
        final = apply_layout(text, layout)
        raw_bytes = None
        if layout.get("cookie"):
            # PEP 263 source: declared non-UTF-8 encoding plus one character whose bytes differ between the two encodings
            ctext = "# -*- coding: %s -*-\n" % layout["cookie"] + final + ("" if final.endswith("\n") or not final else "\n") + 's_cookie = "Jos\u00e9 \u00fcber"\n'
            try:
                raw_bytes = ctext.encode(layout["cookie"])
                final = ctext
            except (UnicodeEncodeError, LookupError):
                raw_bytes = None
        probe = final.lstrip("\ufeff").replace("\r\n", "\n").replace("\r", "\n")
        ok = parses(probe)
        files[path] = enc(raw_bytes if raw_bytes is not None else final.encode("utf-8"))
        meta["files"][path] = {"kind": "py", "snippets": list(f["snippets"]), "codemods": [r["codemod"] for r in recs],
                               "parses": ok, "layout": layout}
        if not ok:
            meta["parse_ok"] = False
        # siblings required by the snippet (django projects), placed relative to the same prefix
        for r in recs:
            if r.get("siblings"):
                prefix = path[: -len(r["relpath"])] if path.endswith(r["relpath"]) else os.path.dirname(path) + "/"
                for sp, content in r["siblings"].items():
                    p = os.path.normpath(os.path.join(prefix, sp)) if prefix else sp
                    if p not in files:
                        files[p] = enc(content.encode("utf-8"))
                        meta["files"][p] = {"kind": "sibling"}
        # findings
        if len(recs) == 1 and recs[0].get("tool"):
            off = int(layout.get("offset", 0))
            kind, fnd = snippet_findings(recs[0], path, off)
            if kind:
                for x in fnd:
                    meta["findings"].setdefault(kind, []).append({"file": path, "finding": x})
    world = {
        "files": files,
        "symlinks": spec.get("symlinks", {}),
        "dirs": spec.get("dirs", []),
        "outside": spec.get("outside", {}),
        "results": {},
    }
    if spec.get("order"):
        world["order"] = [p for p in spec["order"] if p in files] + sorted(set(files) - set(spec["order"]))
    return world, meta


def default_delivery(meta):
    """one result file per kind holding all findings -> (results dict name->enc, argv options)"""
    results = {}
    argv = []
    for kind in sorted(meta["findings"]):
        name = kind.replace(":", "-") + ".json"
        doc = make_result_doc(kind, [x["finding"] for x in meta["findings"][kind]])
        results[name] = enc(json.dumps(doc).encode("utf-8"))
        argv += [RESULT_OPTION[kind], f"<R>/{name}"]
    return results, argv


def apply_changes(world_files, changed):
    """files dict (rel->enc) + outcome['changed'] -> new files dict"""
    out = dict(world_files)
    for rel, v in changed.items():
        if v is None:
            out.pop(rel, None)
        elif "meta" in v:
            continue
        else:
            out[rel] = v
    return out
