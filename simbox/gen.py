"""Seeded generators shared by the checks (coordinator side, pure)."""
import json
import os
from functools import lru_cache

from . import world as W

POLICIES = ["uniform", "fifo", "reverse", "round-robin", "eager-start", "starve", "pct"]
LINE_PS = [0.0, 0.0, 0.001, 0.01, 0.2]
DIRS = ["", "pkg", "pkg/sub", "app", "src/lib", "a b", "d\u00e9j\u00e0", "deep/er/and/deeper"]
EXCLUDED_DIRS = ["tests", "test", "build", "venv", ".git", "lib/site-packages", "pkg/__tests__"]
STEMS = ["a", "b", "c", "mod", "views", "util", "x_1", "main", "h\u00e9llo", "with space", "zeta", "alpha"]


@lru_cache(None)
def codemods():
    with open(os.path.join(W.CORPUS, "codemods.json"), encoding="utf-8") as f:
        return json.load(f)


def ids(origin=None, detector=None, exclude_default=False):
    out = []
    for c in codemods():
        if origin and c["origin"] != origin:
            continue
        if detector and c["detector"] != detector:
            continue
        if exclude_default and c["default_excluded"]:
            continue
        out.append(c["id"])
    return out


def info(cid):
    for c in codemods():
        if c["id"] == cid:
            return c
    return None


def is_plain_snippet(r):
    """usable at an arbitrary path, no siblings"""
    return r["relpath"] == "code.py" and not r["siblings"]


def pick_snippet(rng, cid, plain=True):
    cands = [r for r in W.triggering(cid) if (is_plain_snippet(r) or not plain)]
    if not cands:
        return None
    return rng.choice(cands)


def rand_layout(rng, sast=False, exotic=False, rich=True):
    lay = {}
    if not rich:
        return lay
    if rng.random() < 0.25:
        lay["eol"] = "crlf"
    if rng.random() < 0.2:
        lay["final_nl"] = False
    if rng.random() < 0.12:
        lay["bom"] = True
    if rng.random() < 0.35:
        lay["offset"] = rng.randrange(1, 6)
    if rng.random() < 0.2:
        lay["nonascii"] = True
    if not sast and rng.random() < 0.2:
        lay["wrap"] = rng.choice(["def", "class", "if"])
        if rng.random() < 0.3:
            lay["tabs"] = True
    if exotic:
        lay["exotic"] = rng.choice(["ff", "vt-in-str", "u2028-in-str", "nel-in-str", "ff-in-str", "cr-in-comment"])
    return lay


def rand_path(rng, used, dirs=DIRS, ext=".py"):
    for _ in range(100):
        d = rng.choice(dirs)
        p = (d + "/" if d else "") + rng.choice(STEMS) + ext
        if p not in used:
            used.add(p)
            return p
    p = f"gen_{len(used)}{ext}"
    used.add(p)
    return p


def gen_py_file(rng, used, cids, n_snip=(1, 2), dirs=DIRS, rich=True, exotic=False, must_parse=True):
    """file spec holding 1..n snippets of the given find-and-fix codemods"""
    for _ in range(8):
        k = rng.randint(*n_snip)
        sn = []
        for _ in range(k):
            r = pick_snippet(rng, rng.choice(cids))
            if r is not None:
                sn.append(r["idx"])
        if not sn:
            continue
        lay = rand_layout(rng, rich=rich, exotic=exotic)
        spec = {"path": "?", "snippets": sn, "layout": lay}
        text = W.apply_layout("\n".join(W.snippets()[i]["input"] for i in sn), {k: v for k, v in lay.items() if k in ("wrap", "tabs", "offset")})
        if must_parse and not W.parses(text):
            # retry with a single snippet and no wrapping
            lay.pop("wrap", None)
            lay.pop("tabs", None)
            spec = {"path": "?", "snippets": sn[:1], "layout": lay}
            if not W.parses(W.snippets()[sn[0]]["input"]):
                continue
        spec["path"] = rand_path(rng, used, dirs)
        return spec
    return None


def gen_sast_file(rng, used, cid, dirs=DIRS, rich=True):
    r = pick_snippet(rng, cid)
    if r is None:
        return None
    lay = rand_layout(rng, sast=True, rich=rich)
    lay.pop("bom", None)
    return {"path": rand_path(rng, used, dirs), "snippets": [r["idx"]], "layout": lay}


NEUTRAL = [
    "def add(a, b):\n    return a + b\n",
    "import os\n\nprint(os.getcwd())\n",
    "class K:\n    pass\n",
    "",
    "# only a comment\n",
]


def gen_neutral(rng, used, dirs=DIRS):
    return {"path": rand_path(rng, used, dirs), "raw": {"t": rng.choice(NEUTRAL)}}


def rand_sched(rng, n_files=4, allow_line=True):
    pol = rng.choice(POLICIES)
    s = {"seed": rng.randrange(1 << 30), "policy": pol, "line_p": rng.choice(LINE_PS) if allow_line else 0.0}
    if pol == "starve":
        s["k"] = rng.randrange(max(1, n_files))
    if pol == "pct":
        s["d"] = rng.randint(1, 3)
    return s


def base_exec(rng, n_files=4):
    return {
        "hashseed": 0,
        "sched": rand_sched(rng, n_files),
        "enum_seed": rng.choice([None, rng.randrange(1000)]),
        "heap_shift": 0,
        "faults": [],
    }
