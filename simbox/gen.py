"""Seeded generators shared by the checks (coordinator side, pure)."""
import json
import os
from functools import lru_cache

from . import world as W

POLICIES = ["uniform", "fifo", "reverse", "round-robin", "eager-start", "starve", "pct"]
LINE_PS = [0.0, 0.0, 0.001, 0.01, 0.2]
DIRS = ["", "pkg", "pkg/sub", "app", "src/lib", "a b", "d\u00e9j\u00e0", "deep/er/and/deeper"]
EXCLUDED_DIRS = ["tests", "test", "build", "venv", ".git", "lib/site-packages", "pkg/__tests__"]
STEMS = ["a", "b", "c", "mod", "views", "util", "x_1", "main", "h\u00e9llo", "with space", "zeta", "alpha"]


@lru_cache(None)
def codemods():
    with open(os.path.join(W.CORPUS, "codemods.json"), encoding="utf-8") as f:
        return json.load(f)


def ids(origin=None, detector=None, exclude_default=False):
    out = []
    for c in codemods():
        if origin and c["origin"] != origin:
            continue
        if detector and c["detector"] != detector:
            continue
        if exclude_default and c["default_excluded"]:
            continue
        out.append(c["id"])
    return out


def info(cid):
    for c in codemods():
        if c["id"] == cid:
            return c
    return None


def is_plain_snippet(r):
    """usable at an arbitrary path, no siblings"""
    return r["relpath"] == "code.py" and not r["siblings"]


def pick_snippet(rng, cid, plain=True):
    cands = [r for r in W.triggering(cid) if (is_plain_snippet(r) or not plain)]
    if not cands:
        return None
    return rng.choice(cands)


def rand_layout(rng, sast=False, exotic=False, rich=True):
    lay = {}
    if not rich:
        return lay
    if rng.random() < 0.25:
        lay["eol"] = "crlf"
    if rng.random() < 0.2:
        lay["final_nl"] = False
    if rng.random() < 0.12:
        lay["bom"] = True
    if rng.random() < 0.35:
        lay["offset"] = rng.randrange(1, 6)
    if rng.random() < 0.2:
        lay["nonascii"] = True
    if not sast and rng.random() < 0.2:
        lay["wrap"] = rng.choice(["def", "class", "if"])
        if rng.random() < 0.3:
            lay["tabs"] = True
    if exotic:
        lay["exotic"] = rng.choice(["ff", "vt-in-str", "u2028-in-str", "nel-in-str", "ff-in-str", "cr-in-comment"])
    return lay


def rand_path(rng, used, dirs=DIRS, ext=".py"):
    for _ in range(100):
        d = rng.choice(dirs)
        p = (d + "/" if d else "") + rng.choice(STEMS) + ext
        if p not in used:
            used.add(p)
            return p
    p = f"gen_{len(used)}{ext}"
    used.add(p)
    return p


def gen_py_file(rng, used, cids, n_snip=(1, 2), dirs=DIRS, rich=True, exotic=False, must_parse=True):
    """file spec holding 1..n snippets of the given find-and-fix codemods"""
    for _ in range(8):
        k = rng.randint(*n_snip)
        sn = []
        for _ in range(k):
            r = pick_snippet(rng, rng.choice(cids))
            if r is not None:
                sn.append(r["idx"])
        if not sn:
            continue
        lay = rand_layout(rng, rich=rich, exotic=exotic)
        spec = {"path": "?", "snippets": sn, "layout": lay}
        text = W.apply_layout("\n".join(W.snippets()[i]["input"] for i in sn), {k: v for k, v in lay.items() if k in ("wrap", "tabs", "offset")})
        if must_parse and not W.parses(text):
            # retry with a single snippet and no wrapping
            lay.pop("wrap", None)
            lay.pop("tabs", None)
            spec = {"path": "?", "snippets": sn[:1], "layout": lay}
            if not W.parses(W.snippets()[sn[0]]["input"]):
                continue
        spec["path"] = rand_path(rng, used, dirs)
        return spec
    return None


def gen_sast_file(rng, used, cid, dirs=DIRS, rich=True):
    r = pick_snippet(rng, cid)
    if r is None:
        return None
    lay = rand_layout(rng, sast=True, rich=rich)
    lay.pop("bom", None)
    return {"path": rand_path(rng, used, dirs), "snippets": [r["idx"]], "layout": lay}


NEUTRAL = [
    "def add(a, b):\n    return a + b\n",
    "import os\n\nprint(os.getcwd())\n",
    "class K:\n    pass\n",
    "",
    "# only a comment\n",
]


def gen_neutral(rng, used, dirs=DIRS):
    return {"path": rand_path(rng, used, dirs), "raw": {"t": rng.choice(NEUTRAL)}}


def rand_sched(rng, n_files=4, allow_line=True):
    pol = rng.choice(POLICIES)
    s = {"seed": rng.randrange(1 << 30), "policy": pol, "line_p": rng.choice(LINE_PS) if allow_line else 0.0}
    if pol == "starve":
        s["k"] = rng.randrange(max(1, n_files))
    if pol == "pct":
        s["d"] = rng.randint(1, 3)
    return s


def base_exec(rng, n_files=4):
    return {
        "hashseed": 0,
        "sched": rand_sched(rng, n_files),
        "enum_seed": rng.choice([None, rng.randrange(1000)]),
        "heap_shift": 0,
        "faults": [],
    }


# ------------------------------------------------------------------------------------------
# general experiment generator shared by C03 / C04 / C07 / C09 / C15

TXT_LINES = ["see http://example.com/a\n", "plain line\n", "two http://a.invalid and http://b.invalid\n", "https://ok.invalid\n",
             "\n", "café http://c.invalid\n", "tab\there\n",
             # separators that str.splitlines honours but diff consumers do not
             "ff http://d.invalid\x0cafter the form feed\n", "ls http://e.invalid\u2028after U+2028\n", "nel\x85http://f.invalid\n"]
XML_DOCS = [
    '<?xml version="1.0" encoding="utf-8"?>\n<config>\n  <session name="a"/>\n  <other>text &amp; more</other>\n</config>\n',
    '<config>\n  <session secure="false">x</session>\n  <!-- c -->\n</config>\n',
    '<root>\n  <config>\n    <session/>\n  </config>\n  <config/>\n</root>\n',
    '<root><item/></root>\n',
]
MANIFEST_FILES = ["requirements.txt", "pyproject.toml", "setup.py", "setup.cfg"]


def gen_txt_file(rng, used, dirs=("", "docs", "pkg")):
    n = rng.randint(1, 8)
    lines = [rng.choice(TXT_LINES) for _ in range(n)]
    text = "".join(lines)
    if rng.random() < 0.2:
        text = text.rstrip("\n")
    if rng.random() < 0.2:
        text = text.replace("\n", "\r\n")
    return {"path": rand_path(rng, used, list(dirs), ext=rng.choice([".txt", ".html"])), "raw": {"t": text}}


def gen_xml_file(rng, used, dirs=("", "conf", "pkg")):
    text = rng.choice(XML_DOCS)
    r = rng.random()
    if r < 0.2:
        text = text.replace("\n", "\r\n")  # e.g. a web.config edited on Windows
    elif r < 0.25:
        text = text.replace("\n", "\r")
    elif r < 0.35:
        text = text.rstrip("\n")
    return {"path": rand_path(rng, used, list(dirs), ext=".xml"), "raw": {"t": text}}


def sonar_findings_for_txt(path, text, rng, p=0.7):
    out = []
    for i, line in enumerate(text.replace("\r\n", "\n").split("\n")):
        if "http://" in line and rng.random() < p:
            out.append({"rule": "verif:S9999", "status": "OPEN", "component": path, "message": "plain http",
                        "textRange": {"startLine": i + 1, "endLine": i + 1, "startOffset": 0, "endOffset": max(1, len(line))}})
    return out


def gen_manifests(rng, k=None, tags_ok=None):
    from . import world as W

    ms = W.manifests()
    k = rng.choice([0, 1, 1, 2]) if k is None else k
    out = []
    names = set()
    for _ in range(k):
        m = rng.choice(ms)
        if m["file"] in names:
            continue
        names.add(m["file"])
        d = rng.choice(["", "", "sub"]) if m["file"] != "setup.py" else ""
        out.append({"path": (d + "/" if d else "") + m["file"], "manifest": m["idx"]})
    return out


def gen_general(rng, kinds=("ff", "ff", "ff-dep", "sast", "plugin", "mixed"), max_codemods=4, rich=True, exotic=False):
    from . import world as W

    kind = rng.choice(list(kinds))
    used = set()
    files = []
    include = []
    extra_findings = {}
    plugins = False
    path_include = None
    if kind in ("ff", "ff-dep", "mixed"):
        pool = [c for c in ids(origin="pixee") if any(is_plain_snippet(r) for r in W.triggering(c))]
        if kind == "ff-dep":
            cids = [rng.choice(sorted(W.DEP_CODEMODS))] + rng.sample(pool, rng.randint(0, 2))
        else:
            cids = rng.sample(pool, rng.randint(1, max_codemods))
        for _ in range(rng.randint(1, 6)):
            f = gen_py_file(rng, used, cids, n_snip=(1, 3), rich=rich, exotic=exotic and rng.random() < 0.5)
            if f:
                files.append(f)
        if rng.random() < 0.4:
            files.append(gen_neutral(rng, used))
        include = list(dict.fromkeys(cids))
        rng.shuffle(include)
        if kind == "ff-dep" or rng.random() < 0.3:
            files += gen_manifests(rng, k=rng.choice([1, 1, 2, 3]) if kind == "ff-dep" else None)
    if kind == "sast":
        origin = rng.choice(["sonar", "sonar", "semgrep", "defectdojo"])
        pool = [c for c in ids(origin=origin) if any(is_plain_snippet(r) for r in W.triggering(c))]
        cids = rng.sample(pool, min(len(pool), rng.randint(1, max_codemods)))
        for c in cids:
            for _ in range(rng.randint(1, 2)):
                f = gen_sast_file(rng, used, c, rich=rich)
                if f:
                    files.append(f)
        include = cids
        if rng.random() < 0.3:
            files += gen_manifests(rng)
    if kind in ("plugin", "mixed"):
        plugins = True
        pc = rng.sample(["verif:python/regex-http", "verif:python/xml-attr", "verif:python/xml-newelem", "verif:python/sast-regex-http"],
                        rng.randint(1, 3))
        for c in pc:
            for _ in range(rng.randint(1, 3)):
                if "xml" in c:
                    files.append(gen_xml_file(rng, used))
                else:
                    f = gen_txt_file(rng, used)
                    files.append(f)
                    if c == "verif:python/sast-regex-http":
                        extra_findings.setdefault("sonar:issues", []).extend(
                            {"file": f["path"], "finding": x} for x in sonar_findings_for_txt(f["path"], f["raw"]["t"], rng))
        include = include + pc
        rng.shuffle(include)
        path_include = "*.py,**/*.py,*.txt,**/*.txt,*.html,**/*.html,*.xml,**/*.xml"
    return {"kind": kind, "world_spec": {"files": files}, "include": include, "plugins": plugins,
            "path_include": path_include, "extra_findings": extra_findings}


def general_argv(exp, meta, dry_run=False, include=None, workers=None):
    """-> (argv, results) for a general experiment"""
    import copy as _copy

    from . import world as W

    meta2 = _copy.deepcopy(meta)
    for kind, lst in (exp.get("extra_findings") or {}).items():
        meta2["findings"].setdefault(kind, []).extend(lst)
    results, ropts = W.default_delivery(meta2)
    argv = ["<T>", "--output", "<O>/report.codetf"]
    inc = exp["include"] if include is None else include
    argv += ["--codemod-include", ",".join(inc)]
    argv += ropts
    if exp.get("path_include"):
        argv += ["--path-include", exp["path_include"]]
    if workers:
        argv += ["--max-workers", str(workers)]
    if dry_run:
        argv += ["--dry-run"]
    return argv, results
