"""Coordinator side: pool of hash-seed-pinned zygotes, parallel execution of specs.
Never imports the code under test."""
import json
import os
import platform
import shutil
import subprocess
import sys
import threading
import time
import uuid
from concurrent.futures import ThreadPoolExecutor

HERE = os.path.dirname(os.path.abspath(__file__))
VERIF = os.path.dirname(HERE)
PY = "/venv/bin/python"
SHM = os.environ.get("SIMBOX_SHM", "/dev/shm/simbox")
EXEC_WALL_S = float(os.environ.get("SIMBOX_EXEC_WALL_S", "180"))


class HarnessError(RuntimeError):
    def __init__(self, kind, msg):
        super().__init__(f"{kind}: {msg}")
        self.kind = kind


class _Zygote:
    def __init__(self, hashseed, repo):
        self.hashseed = hashseed
        self.last_used = 0
        r1, w1 = os.pipe()  # coordinator -> zygote
        r2, w2 = os.pipe()  # zygote -> coordinator
        # a fixed, minimal environment: heap layout (hence id()-dependent behaviour) must not vary with the caller's
        env = {"PATH": "/venv/bin:/usr/local/bin:/usr/bin:/bin", "HOME": "/root", "LANG": "C.UTF-8", "LC_ALL": "C.UTF-8"}
        for k in ("SIMBOX_EXEC_WALL_S", "SIMBOX_SEMGREP_MEMO"):
            if k in os.environ:
                env[k] = os.environ[k]
        env["PYTHONDONTWRITEBYTECODE"] = "1"
        env["PYTHONHASHSEED"] = str(hashseed)
        env["VERIF_REPO"] = repo
        env["SIMBOX_SHM"] = SHM
        env["PYTHONDONTWRITEBYTECODE"] = "1"
        env.pop("PYTHONPATH", None)
        cmd = [PY, os.path.join(HERE, "zygote.py"), f"{r1:08d}", f"{w2:08d}"]  # fixed width: argv must not perturb the heap
        if shutil.which("setarch"):
            cmd = ["setarch", platform.machine(), "-R"] + cmd
        self.proc = subprocess.Popen(
            cmd, env=env, pass_fds=(r1, w2), stdin=subprocess.DEVNULL,
            stdout=subprocess.DEVNULL, stderr=open(os.path.join(SHM, "zygote-stderr.log"), "ab"),
            cwd="/", start_new_session=True,
        )
        os.close(r1)
        os.close(w2)
        self.tx = os.fdopen(w1, "w", encoding="utf-8")
        self.rx = os.fdopen(r2, "r", encoding="utf-8")
        line = self.rx.readline()
        if not line:
            raise HarnessError("zygote-start", "zygote died during start-up (see %s/zygote-stderr.log)" % SHM)
        msg = json.loads(line)
        if not msg.get("ready"):
            raise HarnessError("zygote-start", msg.get("error", "?"))

    def run(self, spec):
        sp = os.path.join(SHM, "job-" + uuid.uuid4().hex + ".json")
        with open(sp, "w", encoding="utf-8") as f:
            json.dump(spec, f)
        try:
            self.tx.write(json.dumps({"spec_path": sp}) + "\n")
            self.tx.flush()
            import select

            ready, _, _ = select.select([self.rx], [], [], EXEC_WALL_S)
            if not ready:
                self.kill()
                raise HarnessError("timeout", f"no reply within {EXEC_WALL_S}s")
            line = self.rx.readline()
            if not line:
                raise HarnessError("zygote-died", "no reply")
            msg = json.loads(line)
            if not msg.get("ok"):
                raise HarnessError(msg.get("kind", "harness-error"), msg.get("error", ""))
            with open(msg["outcome_path"], "r", encoding="utf-8") as f:
                out = json.load(f)
            os.unlink(msg["outcome_path"])
            return out
        finally:
            try:
                os.unlink(sp)
            except OSError:
                pass

    def kill(self):
        import signal

        try:
            os.killpg(self.proc.pid, signal.SIGKILL)
        except OSError:
            pass

    def close(self):
        try:
            self.tx.write(json.dumps({"quit": True}) + "\n")
            self.tx.flush()
        except Exception:
            pass
        try:
            self.proc.wait(3)
        except Exception:
            self.kill()
        for f in (self.tx, self.rx):
            try:
                f.close()
            except Exception:
                pass


class ZygotePool:
    """Up to `max_zygotes` hash-seed-pinned interpreters are kept alive (idle ones cost memory only);
    at most `jobs` executions run at the same time."""

    def __init__(self, jobs=None, repo=None, max_zygotes=None):
        self.jobs = jobs or int(os.environ.get("VERIF_JOBS", "16"))
        self.repo = repo or os.environ.get("VERIF_REPO", "/repo")
        self.max_zygotes = max_zygotes or int(os.environ.get("VERIF_MAX_ZYGOTES", str(max(48, self.jobs * 3))))
        os.makedirs(SHM, exist_ok=True)
        self._purge_stale()
        self.lock = threading.Condition()
        self.sem = threading.Semaphore(self.jobs)
        self.idle = {}  # hashseed -> [zygote]
        self.busy = {}  # hashseed -> count
        self.total = 0
        self.spawned = 0
        self.executions = 0
        self.tick = 0

    @staticmethod
    def _purge_stale(max_age_s=3 * 3600):
        """job files / sandboxes left behind by killed runs"""
        now = time.time()
        try:
            for n in os.listdir(SHM):
                p = os.path.join(SHM, n)
                try:
                    if now - os.path.getmtime(p) > max_age_s and (n.startswith("job-") or n.startswith("x")):
                        if os.path.isdir(p):
                            shutil.rmtree(p, ignore_errors=True)
                        else:
                            os.unlink(p)
                except OSError:
                    pass
        except OSError:
            pass

    def _acquire(self, hs):
        with self.lock:
            while True:
                lst = self.idle.get(hs)
                if lst:
                    z = lst.pop()
                    self.busy[hs] = self.busy.get(hs, 0) + 1
                    return z
                if self.total < self.max_zygotes:
                    self.total += 1
                    break
                if self.busy.get(hs, 0) > 0:
                    self.lock.wait()  # cheaper than spawning: one of that seed will be free soon
                    continue
                # evict the least recently used idle zygote of another seed
                victim = None
                for k, l in self.idle.items():
                    for z in l:
                        if victim is None or z.last_used < victim.last_used:
                            victim = z
                if victim is not None:
                    self.idle[victim.hashseed].remove(victim)
                    threading.Thread(target=victim.close, daemon=True).start()
                    break
                self.lock.wait()
        try:
            z = _Zygote(hs, self.repo)
            with self.lock:
                self.spawned += 1
                self.busy[hs] = self.busy.get(hs, 0) + 1
            return z
        except BaseException:
            with self.lock:
                self.total -= 1
                self.lock.notify_all()
            raise

    def _release(self, z, ok=True):
        with self.lock:
            self.tick += 1
            z.last_used = self.tick
            self.busy[z.hashseed] = self.busy.get(z.hashseed, 1) - 1
            if ok:
                self.idle.setdefault(z.hashseed, []).append(z)
            else:
                self.total -= 1
                threading.Thread(target=z.close, daemon=True).start()
            self.lock.notify_all()

    def run(self, spec):
        hs = int(spec.get("hashseed", 0))
        with self.sem:
            z = self._acquire(hs)
            ok = False
            try:
                out = z.run(spec)
                ok = True
                with self.lock:
                    self.executions += 1
                return out
            finally:
                self._release(z, ok)

    def map(self, fn, items):
        """run fn(item) for all items on up to `jobs` threads; returns results in order"""
        with ThreadPoolExecutor(max_workers=self.jobs) as ex:
            return list(ex.map(fn, items))

    def close(self):
        with self.lock:
            zs = [z for l in self.idle.values() for z in l]
            self.idle = {}
        for z in zs:
            z.close()
