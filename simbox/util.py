"""Small helpers shared by coordinator and worker. No repo imports here."""
import base64
import hashlib
import json
import os


def enc(data: bytes):
    """bytes -> JSON-able; readable when valid UTF-8 without surrogates."""
    try:
        t = data.decode("utf-8")
        if t.encode("utf-8") == data and "\x00" not in t:
            return {"t": t}
    except UnicodeDecodeError:
        pass
    return {"b": base64.b64encode(data).decode("ascii")}


def dec(obj) -> bytes:
    if isinstance(obj, (bytes, bytearray)):
        return bytes(obj)
    if isinstance(obj, str):
        return obj.encode("utf-8")
    if "t" in obj:
        return obj["t"].encode("utf-8")
    return base64.b64decode(obj["b"])


def sha(data: bytes) -> str:
    return hashlib.sha256(data).hexdigest()


def jdump(obj) -> str:
    return json.dumps(obj, sort_keys=True, ensure_ascii=False, separators=(",", ":"))


def jdigest(obj) -> str:
    return hashlib.sha256(jdump(obj).encode("utf-8", "surrogatepass")).hexdigest()


def atomic_write(path: str, data: bytes):
    tmp = f"{path}.{os.getpid()}.tmp"
    with open(tmp, "wb") as f:
        f.write(data)
    os.replace(tmp, path)
