"""Check framework: seeded experiment generation, parallel execution, relational oracles,
shrinking, replay files, known findings, evidence."""
import copy
import fnmatch
import hashlib
import json
import os
import random
import sys
import threading
import time
import traceback
from concurrent.futures import ThreadPoolExecutor, as_completed

from .coord import VERIF, HarnessError, ZygotePool
from .util import jdigest, jdump

KNOWN_FILE = os.path.join(VERIF, "known_findings.json")
REPLAY_DIR = os.path.join(VERIF, "replays")
EVIDENCE_DIR = os.path.join(VERIF, "evidence")
if os.path.realpath(os.environ.get("VERIF_REPO", "/repo")) != "/repo":
    # runs against a scratch copy (sensitivity / seeded mutants) never overwrite the real evidence
    _scratch = os.path.join("/dev/shm/simbox-scratch", os.path.basename(os.path.realpath(os.environ["VERIF_REPO"])))
    REPLAY_DIR = os.path.join(_scratch, "replays")
    EVIDENCE_DIR = os.path.join(_scratch, "evidence")

COMPONENTS = {
    "real": [
        "codemodder.codemodder.run(argv) and everything below it (argument parsing, registry, repo manager, "
        "detectors, per-file processing, libcst/regex/XML pipelines, manifest writers, context merge, CodeTF)",
        "kernel file system (tmpfs sandbox per execution) behind an interposed Python I/O layer",
        "semgrep 1.90 binary (content-addressed memo in front of it; a miss runs the real binary)",
        "PYTHONHASHSEED (fresh hash-seed-pinned interpreters), threading.Thread workers (one runs at a time)",
    ],
    "stub": [
        "concurrent.futures.ThreadPoolExecutor -> SimThreadPool (documented contract only)",
        "time.monotonic / datetime.now seen by the repo -> virtual clock",
        "tempfile name sequence -> deterministic names",
    ],
}


def load_known():
    try:
        with open(KNOWN_FILE, encoding="utf-8") as f:
            return json.load(f)
    except OSError:
        return []


class Check:
    id = "C00"
    level = "exploration"
    rule = ""
    assumptions = []
    budgets = {"quick": {"n": 40, "wall": 150}, "thorough": {"n": 600, "wall": 1200}}

    def gen(self, rng: random.Random, i: int, tier: str) -> dict:
        raise NotImplementedError

    def execute(self, exp: dict, ctx: "Ctx"):
        raise NotImplementedError

    def oracle(self, exp: dict, outcomes) -> list:
        raise NotImplementedError

    def nontrivial(self, exp, outcomes) -> bool:
        return True

    def shrink(self, exp):
        return []

    def sample(self, exp, outcomes):
        return exp

    def extra_batches(self, tier):
        """fixed (non random) experiments always run first"""
        return []


class Ctx:
    def __init__(self, pool: ZygotePool):
        self.pool = pool
        self.lock = threading.Lock()
        self.executions = 0
        self.virtual_s = 0.0
        self.fault_cfg = {}
        self.fault_fired = {}
        self.traces = set()
        self.overlap_sets = set()
        self.max_inflight = 0
        self.hashseeds = set()
        self.policies = set()
        self.worker_counts = set()
        self.codemods_changed = set()
        self.semgrep = {"calls": 0, "hits": 0, "misses": 0, "real_invocations": 0, "dir_mode": 0}
        self.uncontrolled = 0
        self.seam_gaps = 0
        self.steps = 0
        self.preemptions = {"io": 0, "line": 0, "task-start": 0, "other": 0}
        self.probe_third = 0
        self.harness_errors = []
        self._many = ThreadPoolExecutor(max_workers=pool.jobs * 2)

    def run_many(self, specs):
        """run independent executions concurrently (bounded by the pool); results in order"""
        futs = [self._many.submit(self.run, s) for s in specs]
        res, err = [], None
        for f in futs:
            try:
                res.append(f.result())
            except BaseException as e:  # keep draining so that no future is left behind
                err = err or e
                res.append(None)
        if err is not None:
            raise err
        return res

    def run(self, spec):
        out = self.pool.run(spec)
        if out.get("exception") and str(out["exception"]).startswith("HARNESS:"):
            raise HarnessError("sim", out["exception"])
        with self.lock:
            self.executions += 1
            st = out["stats"]
            self.virtual_s += st["virtual_s"]
            for f in st["faults"]:
                self.fault_cfg[f["kind"]] = self.fault_cfg.get(f["kind"], 0) + 1
                self.fault_fired[f["kind"]] = self.fault_fired.get(f["kind"], 0) + f["fired"]
            self.traces.add(out["coarse_trace_digest"])
            if st["overlap_pairs"]:
                self.overlap_sets.add(jdigest(st["overlap_pairs"]))
            self.max_inflight = max(self.max_inflight, st["max_inflight"])
            self.hashseeds.add(int(spec.get("hashseed", 0)))
            self.policies.add((spec.get("sched") or {}).get("policy", "fifo"))
            for w in st["max_workers_seen"]:
                self.worker_counts.add(w)
            if out.get("report"):
                for r in out["report"].get("results", []):
                    if r.get("changeset"):
                        self.codemods_changed.add(r.get("codemod"))
            for k in self.semgrep:
                self.semgrep[k] += st["semgrep"].get(k, 0)
            self.uncontrolled += st["uncontrolled_threads"]
            self.seam_gaps += len(out.get("seam_gap") or [])
            self.steps += st["steps"]
            for k in self.preemptions:
                self.preemptions[k] += st["preemptions"].get(k, 0)
            self.probe_third += st.get("third_not_started_probe", 0)
        return out

    def note_fault(self, kind, fired=True):
        """content-level faults (built into the world, not the seam)"""
        with self.lock:
            self.fault_cfg[kind] = self.fault_cfg.get(kind, 0) + 1
            if fired:
                self.fault_fired[kind] = self.fault_fired.get(kind, 0) + 1


def _run_exp(check, exp, ctx):
    """-> (outcomes|None, violations, error|None)"""
    last = None
    for attempt in range(2):
        try:
            outcomes = check.execute(exp, ctx)
            viol = check.oracle(exp, outcomes)
            return outcomes, viol, None
        except HarnessError as e:
            last = f"{e}"
        except Exception:
            last = "oracle/harness exception: " + traceback.format_exc()
            break
    return None, [], last


def _is_known(known, prop, key):
    for k in known:
        if k.get("property") == prop and k.get("status") == "known" and fnmatch.fnmatchcase(key, k.get("key", "")):
            return k
    return None


def shrink(check, exp, viol, ctx, budget=24, log=print, wall_s=240.0):
    """greedy: accept a candidate if the same violation clause persists (bounded in candidates and wall time)"""
    target = viol["clause"]
    cur, cur_v = exp, viol
    tried = 0
    improved = True
    t_end = time.time() + wall_s
    while improved and tried < budget and time.time() < t_end:
        improved = False
        for cand in check.shrink(cur):
            if tried >= budget or time.time() > t_end:
                break
            tried += 1
            outcomes, vs, err = _run_exp(check, cand, ctx)
            if err:
                continue
            same = [v for v in vs if v["clause"] == target]
            if same:
                cur, cur_v = cand, same[0]
                improved = True
                break
    return cur, cur_v, tried


def write_replay(check, exp, viol, seed, outcomes_digest=None):
    os.makedirs(REPLAY_DIR, exist_ok=True)
    body = {"property": check.id, "seed": seed, "experiment": exp, "violation": viol,
            "expected_digests": outcomes_digest}
    d = jdigest(body)[:12]
    path = os.path.join(REPLAY_DIR, f"{check.id}-{seed}-{d}.json")
    with open(path, "w", encoding="utf-8") as f:
        json.dump(body, f, indent=1, sort_keys=True)
    return path


def _digests(outcomes):
    """flattened list of event-log digests of all executions of an experiment, in order"""
    if outcomes is None:
        return None
    out = []

    def walk(o):
        if isinstance(o, dict):
            if "log_digest" in o and "stats" in o:
                out.append(o["log_digest"])
            else:
                for k in sorted(o):
                    walk(o[k])
        elif isinstance(o, (list, tuple)):
            for x in o:
                walk(x)

    walk(outcomes)
    return out


def run_check(check: Check, tier: str, seed: int, jobs: int, out=print):
    t0 = time.time()
    budget = check.budgets[tier]
    known = load_known()
    pool = ZygotePool(jobs=jobs)
    ctx = Ctx(pool)
    n_exp = 0
    distinct = set()
    nontrivial = set()
    samples = []
    violations = []  # (exp, viol, outcomes)
    known_hits = {}
    errors = []
    kinds = {}
    lock = threading.Lock()

    def gen_all():
        for j, e in enumerate(check.extra_batches(tier)):
            e.setdefault("_id", f"fixed:{j}")
            yield e
        for i in range(budget["n"]):
            rng = random.Random(f"{seed}:{check.id}:{i}")
            e = check.gen(rng, i, tier)
            if e is None:
                continue
            e.setdefault("_id", f"{seed}:{check.id}:{i}")
            yield e

    def work(exp):
        return exp, _run_exp(check, exp, ctx)

    stop = False
    with ThreadPoolExecutor(max_workers=jobs) as ex:
        it = gen_all()
        pending = set()
        exhausted = False
        while True:
            while not exhausted and not stop and len(pending) < jobs * 2:
                if time.time() - t0 > budget["wall"]:
                    exhausted = True
                    break
                try:
                    e = next(it)
                except StopIteration:
                    exhausted = True
                    break
                pending.add(ex.submit(work, e))
            if not pending:
                break
            done = next(as_completed(pending))
            pending.discard(done)
            exp, (outcomes, vs, err) = done.result()
            n_exp += 1
            kinds[exp.get("kind", "default")] = kinds.get(exp.get("kind", "default"), 0) + 1
            if err:
                errors.append({"exp": exp.get("_id"), "error": err[-1500:]})
                continue
            dg = jdigest({k: v for k, v in exp.items() if k != "_id"})
            distinct.add(dg)
            try:
                if check.nontrivial(exp, outcomes):
                    nontrivial.add(dg)
                    if len(samples) < 3:
                        samples.append(check.sample(exp, outcomes))
            except Exception:
                errors.append({"exp": exp.get("_id"), "error": "nontrivial(): " + traceback.format_exc()[-800:]})
            for v in vs:
                k = _is_known(known, check.id, v["key"])
                if k is not None:
                    known_hits.setdefault(k["key"], [k, 0])[1] += 1
                else:
                    violations.append((exp, v, outcomes))
            if len({v["key"] for _, v, _ in violations}) >= 4:
                stop = True

    # report
    reported = []
    seen_keys = set()
    for exp, v, outcomes in violations:
        if v["key"] in seen_keys or len(seen_keys) >= 6:
            continue
        seen_keys.add(v["key"])
        try:
            small, small_v, tried = shrink(check, exp, v, ctx)
        except Exception:
            small, small_v, tried = exp, v, 0
        # the minimised experiment may turn out to be a listed finding (its key can be more specific than the original's)
        k = _is_known(known, check.id, small_v["key"])
        if k is not None:
            known_hits.setdefault(k["key"], [k, 0])[1] += 1
            continue
        # re-run the minimised experiment to record digests
        outs, vs2, err = _run_exp(check, small, ctx)
        path = write_replay(check, small, small_v, seed, _digests(outs))
        out(f"VIOLATION property={check.id} replay={path}")
        out(f"  clause={small_v['clause']} key={small_v['key']} shrink_steps={tried}")
        out("  detail=" + jdump(small_v.get("detail"))[:1500])
        reported.append(path)
    for key, (k, n) in sorted(known_hits.items()):
        out(f"KNOWN-FINDING: property={check.id} {k.get('what', key)} [key={key}, seen {n}x in this run]")
    pool.close()
    wall = time.time() - t0
    probe_stuck = sorted(k for k, v in ctx.fault_cfg.items() if ctx.fault_fired.get(k, 0) == 0)
    ev = {
        "property_id": check.id,
        "tier": tier,
        "seed": seed,
        "level": check.level,
        "wall_s": round(wall, 2),
        "violations": len(reported),
        "assumptions": check.assumptions,
        "coverage": {
            "evaluations": ctx.executions,
            "distinct_nontrivial": len(nontrivial),
            "rule": check.rule,
            "samples": samples,
            "experiments": n_exp,
            "distinct_experiments": len(distinct),
            "experiment_kinds": kinds,
            "executions_per_hour": int(ctx.executions / max(wall, 1e-6) * 3600),
            "experiments_per_hour": int(n_exp / max(wall, 1e-6) * 3600),
            "simulated_time_s": round(ctx.virtual_s, 3),
            "fault_kinds": {k: {"configured": ctx.fault_cfg[k], "fired": ctx.fault_fired.get(k, 0)} for k in sorted(ctx.fault_cfg)},
            "probe_stuck": probe_stuck,
            "distinct_interleavings": {"coarse_traces": len(ctx.traces), "overlap_sets": len(ctx.overlap_sets),
                                       "measure": "sha256 of the (pool, file-start/end, codemod-begin, fault) event sequence; "
                                                  "overlap set = unordered pairs of files in flight together"},
            "max_inflight_seen": ctx.max_inflight,
            "scheduling_steps": ctx.steps,
            "preemptions": ctx.preemptions,
            "probe_two_inflight_third_not_started": ctx.probe_third,
            "hash_seeds": sorted(ctx.hashseeds),
            "policies": sorted(ctx.policies),
            "pool_worker_counts": sorted(x for x in ctx.worker_counts if x is not None),
            "codemods_with_change": len(ctx.codemods_changed),
            "semgrep_memo": ctx.semgrep,
            "uncontrolled_threads": ctx.uncontrolled,
            "seam_gaps": ctx.seam_gaps,
            "zygotes_spawned": pool.spawned,
            "harness_errors": len(errors),
            "harness_error_samples": errors[:3],
            "known_findings_seen": {k: n for k, (_, n) in known_hits.items()},
            "components": COMPONENTS,
        },
    }
    os.makedirs(EVIDENCE_DIR, exist_ok=True)
    with open(os.path.join(EVIDENCE_DIR, f"{check.id}.json"), "w", encoding="utf-8") as f:
        json.dump(ev, f, indent=1, sort_keys=True)
    out(f"{check.id} tier={tier} seed={seed}: experiments={n_exp} executions={ctx.executions} "
        f"nontrivial={len(nontrivial)} violations={len(reported)} known={len(known_hits)} "
        f"harness_errors={len(errors)} wall={wall:.1f}s")
    if probe_stuck:
        out(f"WARNING probe_stuck (configured but never fired): {probe_stuck}")
    if reported:
        return 1
    if errors and (len(errors) > max(2, n_exp // 20) or len(nontrivial) < 2):
        out("HARNESS-INCONCLUSIVE: " + jdump(errors[:2])[:3000])
        return 3
    if len(nontrivial) < 2:
        out("HARNESS-INCONCLUSIVE: fewer than 2 non-trivial experiments")
        return 3
    return 0


def replay(check: Check, path: str, jobs: int, out=print):
    with open(path, encoding="utf-8") as f:
        body = json.load(f)
    pool = ZygotePool(jobs=jobs)
    ctx = Ctx(pool)
    exp = body["experiment"]
    outcomes, vs, err = _run_exp(check, exp, ctx)
    pool.close()
    if err:
        out("REPLAY-HARNESS-ERROR: " + err[-2000:])
        return 3
    want = body["violation"]
    same = [v for v in vs if v["key"] == want["key"]] or [v for v in vs if v["clause"] == want["clause"]]
    dg = _digests(outcomes)
    if same:
        known = _is_known(load_known(), check.id, same[0]["key"])
        if body.get("expected_digests") and dg != body["expected_digests"]:
            out("REPLAY-DIVERGED: violation reproduced but event-log digests differ")
        if known:
            out(f"KNOWN-FINDING: property={check.id} {known.get('what')} [key={same[0]['key']}]")
            return 0
        out(f"VIOLATION property={check.id} replay={path}")
        out(f"  clause={same[0]['clause']} key={same[0]['key']}")
        out("  detail=" + jdump(same[0].get("detail"))[:3000])
        return 1
    out(f"REPLAY-CLEAN: the recorded violation ({want['key']}) does not occur on this tree"
        + ("" if dg == body.get("expected_digests") else " (event-log digests differ from the recording)"))
    return 0
