"""Seams: file-system interposition, virtual clock, semgrep peer shim, fault plan and the
wrappers around the repository's per-file / per-codemod entry points.  Installed once in the
zygote (before the code under test is imported where needed); all per-execution state lives in
sched.CURRENT (class Sim) and in the module global FS (class FsState), both created in the forked
child."""
import builtins
import errno
import io
import json
import logging
import os
import random
import stat as statmod
import subprocess as real_subprocess
import sys
import tempfile
import threading

from . import sched
from .util import atomic_write, enc, sha

# originals, captured before patching
_o = {}
for _n in (
    "open scandir listdir stat lstat unlink remove rename replace mkdir rmdir symlink link "
    "truncate chmod utime"
).split():
    _o[_n] = getattr(os, _n)
_o["builtin_open"] = builtins.open
real_open = builtins.open

MUTATING = {
    "open-write", "os-open-write", "unlink", "rename", "mkdir", "rmdir", "symlink", "link",
    "truncate", "chmod", "utime", "write-close",
}


class Fault:
    def __init__(self, spec):
        self.spec = spec
        self.op = spec["op"]
        self.path = spec.get("path")  # zone path like <T>/pkg/a.py, or None = any
        self.codemod_index = spec.get("codemod_index")
        self.nth = spec.get("nth", 1)
        self.kind = spec["kind"]
        self.arg = spec.get("arg")
        self.seen = 0
        self.fired = 0

    def matches(self, op, zpath, cmi):
        if op != self.op:
            return False
        if self.path is not None and zpath != self.path:
            return False
        if self.codemod_index is not None and cmi != self.codemod_index:
            return False
        self.seen += 1
        if self.nth == 0 or self.seen == self.nth:
            self.fired += 1
            return True
        return False


class FsState:
    """Per-execution file-system seam state."""

    def __init__(self, root, enum_seed, faults, semgrep_cfg):
        self.root = root  # sandbox root (realpath)
        self.zones = {
            "T": os.path.join(root, "T"),
            "X": os.path.join(root, "X"),
            "R": os.path.join(root, "R"),
            "O": os.path.join(root, "O"),
            "tmp": os.path.join(root, "tmp"),
        }
        self.enum_seed = enum_seed
        self.faults = [Fault(f) for f in (faults or [])]
        self.writes = []  # {ci, path, before, after}
        self.mutations = []  # [op, zpath, ci, realzone]
        self.escapes = []  # mutating events resolving outside T/O/tmp
        self.counts = {}
        self.semgrep = semgrep_cfg or {}
        self.semgrep_stats = {"calls": 0, "hits": 0, "misses": 0, "real_invocations": 0, "dir_mode": 0}
        self.active = True

    def zone(self, path):
        """-> (zone-qualified path like '<T>/a/b.py', zone) or (None, None) outside sandbox"""
        try:
            p = os.path.abspath(os.fspath(path))
        except TypeError:
            return None, None
        if isinstance(p, bytes):
            p = os.fsdecode(p)
        if not p.startswith(self.root):
            return None, None
        for z, zp in self.zones.items():
            if p == zp:
                return f"<{z}>", z
            if p.startswith(zp + os.sep):
                return f"<{z}>/" + p[len(zp) + 1 :], z
        return "<S>" + p[len(self.root) :], "S"

    def realzone(self, path):
        try:
            rp = os.path.realpath(os.fspath(path))
        except Exception:
            return "?"
        if isinstance(rp, bytes):
            rp = os.fsdecode(rp)
        for z, zp in self.zones.items():
            if rp == zp or rp.startswith(zp + os.sep):
                return z
        if rp.startswith(self.root):
            return "S"
        return "OUT"

    def fault(self, op, zpath):
        sim = sched.CURRENT
        cmi = sim.codemod_index if sim else -1
        for f in self.faults:
            if f.matches(op, zpath, cmi):
                if sim:
                    sim.log("fault", f.kind, op, zpath)
                return f
        return None

    def count(self, k):
        self.counts[k] = self.counts.get(k, 0) + 1


FS: FsState | None = None


def _event(op, zpath, *extra, mutating=False, path=None):
    sim = sched.CURRENT
    fs = FS
    fs.count(op)
    if sim is not None:
        sim.log("fs", op, zpath, *extra)
    if mutating:
        rz = fs.realzone(path) if path is not None else "?"
        fs.mutations.append([op, zpath, sim.codemod_index if sim else -1, rz])
        if rz not in ("T", "O", "tmp"):
            fs.escapes.append([op, zpath, rz])
    if sim is not None:
        sim.yield_point("io")


def _instrument_write(f, path, zpath, before, fault):
    """Records bytes before/after and applies write faults WITHOUT replacing the file object: the real io object is
    returned (code under test may test isinstance(out, io.TextIOBase), as xml.sax.saxutils.XMLGenerator does) with
    instance attributes shadowing close / write / writelines."""
    state = {"logged": False}
    real_close = f.close
    real_write = f.write

    def log_close():
        if state["logged"]:
            return
        state["logged"] = True
        try:
            with real_open(path, "rb") as g:
                after = g.read()
        except OSError:
            after = None
        sim = sched.CURRENT
        fs = FS
        if fs is None:
            return
        fs.writes.append({
            "ci": sim.codemod_index if sim else -1,
            "path": zpath,
            "before": None if before is None else enc(before),
            "after": None if after is None else enc(after),
        })
        if sim is not None:
            sim.log("fs", "write-close", zpath, None if after is None else sha(after.replace(fs.root.encode(), b"<S>"))[:16])

    def close():
        if fault is not None and fault.kind == "enospc-on-close" and not state.get("close_failed"):
            # buffered data cannot be flushed: nothing (complete) reaches the disk and close() reports the error
            state["close_failed"] = True
            try:
                f.seek(0)
                f.truncate(0)
            except (OSError, ValueError):
                pass
            try:
                real_close()
            finally:
                log_close()
            raise OSError(errno.ENOSPC, "No space left on device (injected at close/flush)")
        try:
            return real_close()
        finally:
            log_close()

    def write(data):
        if fault is not None:
            if fault.kind == "enospc-on-write":
                raise OSError(errno.ENOSPC, "No space left on device (injected)")
            if fault.kind == "short-write":
                real_write(data[: max(0, len(data) // 2)])
                f.flush()
                raise OSError(errno.ENOSPC, "No space left on device (injected, short write)")
            if fault.kind == "eio-on-write":
                raise OSError(errno.EIO, "Input/output error (injected)")
        return real_write(data)

    def writelines(lines):
        for line in lines:
            write(line)

    try:
        f.close = close
        if fault is not None:
            f.write = write
            f.writelines = writelines
    except AttributeError:
        pass  # an io object without instance dict: left uninstrumented (seam gap shows up in the snapshot comparison)
    return f


def _is_write_mode(mode):
    return any(c in mode for c in "wax+")


class _Unrenderable:
    """stands for a transformed module whose code generation raises"""

    def __init__(self, tree):
        self._tree = tree

    def __getattr__(self, name):
        return getattr(self._tree, name)

    @property
    def code(self):
        raise TypeError("injected: the transformed tree cannot be rendered")


class SimHang(BaseException):
    """Bounded liveness: the code under test blocked on something that never completes in the simulated world (opening a
    FIFO nobody else has open).  A BaseException on purpose: the repository's `except Exception` handlers must not turn a
    hang into an ordinary per-file failure."""


def _would_block_forever(path):
    try:
        return statmod.S_ISFIFO(_o["lstat"](path).st_mode)
    except (OSError, KeyError, TypeError, ValueError):
        return False


def sim_open(file, mode="r", *args, **kwargs):
    fs = FS
    if fs is None or not fs.active or isinstance(file, int):
        return real_open(file, mode, *args, **kwargs)
    zpath, zone = fs.zone(file)
    if zpath is None:
        return real_open(file, mode, *args, **kwargs)
    if _would_block_forever(file):
        _event("hang", zpath, mode, path=file)
        raise SimHang(f"open({zpath!r}, {mode!r}) on a FIFO blocks forever")
    if _is_write_mode(mode):
        before = None
        try:
            with real_open(file, "rb") as g:
                before = g.read()
        except OSError:
            before = None
        _event("open-write", zpath, mode, mutating=True, path=file)
        flt = fs.fault("open-write", zpath)
        if flt is not None:
            if flt.kind == "open-eacces":
                raise PermissionError(errno.EACCES, "Permission denied (injected)", os.fspath(file))
            if flt.kind == "open-erofs":
                raise OSError(errno.EROFS, "Read-only file system (injected)", os.fspath(file))
            if flt.kind == "open-enospc":
                raise OSError(errno.ENOSPC, "No space left on device (injected)", os.fspath(file))
        f = real_open(file, mode, *args, **kwargs)
        if zone == "tmp":
            return f  # scratch files of the code under test: no instrumentation needed
        wflt = fs.fault("write", zpath)
        return _instrument_write(f, os.fspath(file), zpath, before, wflt)
    # read
    _event("open-read", zpath, mode, path=file)
    flt = fs.fault("open-read", zpath)
    if flt is not None:
        if flt.kind == "vanish-before-read":
            try:
                _o["unlink"](file)
            except OSError:
                pass
        elif flt.kind == "read-eio":
            raise OSError(errno.EIO, "Input/output error (injected)", os.fspath(file))
        elif flt.kind == "read-eacces":
            raise PermissionError(errno.EACCES, "Permission denied (injected)", os.fspath(file))
    return real_open(file, mode, *args, **kwargs)


def sim_os_open(path, flags, mode=0o777, *, dir_fd=None):
    fs = FS
    if fs is None or not fs.active or dir_fd is not None:
        return _o["open"](path, flags, mode, dir_fd=dir_fd)
    zpath, zone = fs.zone(path)
    if zpath is None:
        return _o["open"](path, flags, mode, dir_fd=dir_fd)
    if _would_block_forever(path) and not flags & os.O_NONBLOCK:
        _event("hang", zpath, path=path)
        raise SimHang(f"os.open({zpath!r}) on a FIFO blocks forever")
    if flags & (os.O_WRONLY | os.O_RDWR | os.O_CREAT | os.O_TRUNC | os.O_APPEND):
        _event("os-open-write", zpath, mutating=True, path=path)
    else:
        _event("os-open-read", zpath, path=path)
    return _o["open"](path, flags, mode, dir_fd=dir_fd)


class _ScandirResult:
    def __init__(self, entries):
        self._entries = entries
        self._i = 0

    def __iter__(self):
        return self

    def __next__(self):
        if self._i >= len(self._entries):
            raise StopIteration
        e = self._entries[self._i]
        self._i += 1
        return e

    def close(self):
        pass

    def __enter__(self):
        return self

    def __exit__(self, *a):
        return False


def _permute(zpath, names_or_entries, key):
    fs = FS
    items = sorted(names_or_entries, key=key)
    if fs.enum_seed is not None:
        random.Random(f"enum:{fs.enum_seed}:{zpath}").shuffle(items)
    return items


def sim_scandir(path="."):
    fs = FS
    if fs is None or not fs.active or isinstance(path, int):
        return _o["scandir"](path)
    zpath, zone = fs.zone(path)
    if zpath is None:
        return _o["scandir"](path)
    with _o["scandir"](path) as it:
        entries = list(it)
    entries = _permute(zpath, entries, lambda e: os.fsdecode(e.name))
    _event("scandir", zpath, len(entries), path=path)
    return _ScandirResult(entries)


def sim_listdir(path="."):
    fs = FS
    if fs is None or not fs.active or isinstance(path, int):
        return _o["listdir"](path)
    zpath, zone = fs.zone(path)
    if zpath is None:
        return _o["listdir"](path)
    names = _permute(zpath, _o["listdir"](path), lambda n: os.fsdecode(n))
    _event("listdir", zpath, len(names), path=path)
    return names


def _mut1(name, op):
    orig = _o[name]

    def wrapper(path, *a, **kw):
        fs = FS
        if fs is not None and fs.active and "dir_fd" not in kw and not isinstance(path, int):
            zpath, zone = fs.zone(path)
            if zpath is not None:
                _event(op, zpath, mutating=True, path=path)
        return orig(path, *a, **kw)

    wrapper.__name__ = name
    return wrapper


def _mut2(name, op):
    orig = _o[name]

    def wrapper(src, dst, *a, **kw):
        fs = FS
        if fs is not None and fs.active and not any(k in kw for k in ("dir_fd", "src_dir_fd", "dst_dir_fd")):
            zs, _ = fs.zone(src) if name not in ("symlink",) else (None, None)
            zd, _ = fs.zone(dst)
            if zs is not None:
                _event(op, zs, "src", mutating=True, path=src)
            if zd is not None:
                _event(op, zd, "dst", mutating=True, path=os.path.dirname(os.path.abspath(os.fspath(dst))))
        return orig(src, dst, *a, **kw)

    wrapper.__name__ = name
    return wrapper


def sim_stat(path, *a, **kw):
    fs = FS
    if fs is not None and fs.active:
        fs.counts["stat"] = fs.counts.get("stat", 0) + 1
    return _o["stat"](path, *a, **kw)


def sim_lstat(path, *a, **kw):
    fs = FS
    if fs is not None and fs.active:
        fs.counts["lstat"] = fs.counts.get("lstat", 0) + 1
    return _o["lstat"](path, *a, **kw)


def install_fs():
    builtins.open = sim_open
    io.open = sim_open
    os.open = sim_os_open
    os.scandir = sim_scandir
    os.listdir = sim_listdir
    os.stat = sim_stat
    os.lstat = sim_lstat
    os.unlink = _mut1("unlink", "unlink")
    os.remove = _mut1("remove", "unlink")
    os.mkdir = _mut1("mkdir", "mkdir")
    os.rmdir = _mut1("rmdir", "rmdir")
    os.truncate = _mut1("truncate", "truncate")
    os.chmod = _mut1("chmod", "chmod")
    os.utime = _mut1("utime", "utime")
    os.rename = _mut2("rename", "rename")
    os.replace = _mut2("replace", "rename")
    os.symlink = _mut2("symlink", "symlink")
    os.link = _mut2("link", "link")
    # deterministic temp names
    tempfile._name_sequence = _DetNames()


class _DetNames:
    def __init__(self):
        self.n = 0

    def __iter__(self):
        return self

    def __next__(self):
        self.n += 1
        return f"sim{self.n:05d}"


# ------------------------------------------------------------------------------------------
# virtual clock


class _VTimeModule:
    """Replacement for the `time` module object bound in codemodder.utils.timer."""

    def __init__(self, real):
        self._real = real

    def monotonic(self):
        sim = sched.CURRENT
        if sim is None:
            return self._real.monotonic()
        sim.tick(0.0001, 0.002)
        return sim.vclock - sim.vclock0

    def __getattr__(self, name):
        return getattr(self._real, name)


class _VDatetimeModule:
    def __init__(self, real):
        self._real = real
        outer = self

        class datetime(real.datetime):
            @classmethod
            def now(cls, tz=None):
                sim = sched.CURRENT
                if sim is None:
                    return real.datetime.now(tz)
                sim.tick(0.0001, 0.002)
                return real.datetime.fromtimestamp(sim.vclock, tz)

        self.datetime = datetime

    def __getattr__(self, name):
        return getattr(self._real, name)


# ------------------------------------------------------------------------------------------
# semgrep peer shim

SEMGREP_BIN = "/venv/bin/semgrep"


class _SubprocessShim:
    """Bound as codemodder.semgrep.subprocess."""

    PIPE = real_subprocess.PIPE
    CalledProcessError = real_subprocess.CalledProcessError
    CompletedProcess = real_subprocess.CompletedProcess

    def __getattr__(self, name):
        return getattr(real_subprocess, name)

    def run(self, command, **kw):
        if command and os.path.basename(str(command[0])) == "semgrep" and "scan" in command:
            return _semgrep_shim(list(map(str, command)), kw)
        return real_subprocess.run(command, **kw)


def _real_semgrep(configs, targets, out, extra_env=None):
    env = dict(os.environ)
    env.update({"SEMGREP_SEND_METRICS": "off", "SEMGREP_ENABLE_VERSION_CHECK": "0"})
    env["PATH"] = "/venv/bin:" + env.get("PATH", "")
    cmd = [SEMGREP_BIN, "scan", "--no-error", "--dataflow-traces", "--sarif", "-o", out,
           "--jobs", "1", "--timeout", "0", "--metrics", "off", "--disable-version-check", "--quiet"]
    for c in configs:
        cmd += ["--config", c]
    cmd += targets
    FS.semgrep_stats["real_invocations"] += 1
    return real_subprocess.run(cmd, shell=False, check=False, stdout=real_subprocess.PIPE,
                               stderr=real_subprocess.PIPE, env=env)


def _memo_path(key):
    d = os.path.join(FS.semgrep["memo_dir"], key[:2])
    return d, os.path.join(d, key + ".json")


def _memo_get(key):
    pre = FS.semgrep.get("preloaded")
    if pre is not None and key in pre:
        return pre[key]
    _, p = _memo_path(key)
    try:
        with real_open(p, "r", encoding="utf-8") as f:
            return json.load(f)
    except (OSError, ValueError):
        return None


def _memo_put(key, val):
    d, p = _memo_path(key)
    os.makedirs(d, exist_ok=True)
    atomic_write(p, json.dumps(val, sort_keys=True).encode("utf-8"))
    new = FS.semgrep.setdefault("new_entries", {})
    new[key] = val


def _rule_ids_of_yaml(text):
    import yaml

    try:
        d = yaml.safe_load(text)
        return [r.get("id") for r in d.get("rules", [])]
    except Exception:
        return []


def _result_sort_key(r):
    loc = r["locations"][0]["physicalLocation"]
    reg = loc["region"]
    return (loc["artifactLocation"]["uri"], reg.get("startLine", 0), reg.get("startColumn", 0),
            reg.get("endLine", 0), reg.get("endColumn", 0), r.get("ruleId", ""))


def _rewrite_uri(obj, frm, to):
    """replace artifactLocation.uri == frm by to, recursively"""
    if isinstance(obj, dict):
        if "uri" in obj and obj["uri"] == frm:
            obj = dict(obj)
            obj["uri"] = to
        return {k: _rewrite_uri(v, frm, to) if k != "uri" else obj[k] for k, v in obj.items()}
    if isinstance(obj, list):
        return [_rewrite_uri(x, frm, to) for x in obj]
    return obj


def _semgrep_shim(command, kw):
    fs = FS
    sim = sched.CURRENT
    fs.semgrep_stats["calls"] += 1
    fs.active = False  # the shim's own file access is not part of the system under test
    try:
        out = None
        configs = []
        targets = []
        i = 2 if command[1] == "scan" else 1
        i = command.index("scan") + 1
        while i < len(command):
            a = command[i]
            if a == "-o":
                out = command[i + 1]
                i += 2
            elif a == "--config":
                configs.append(command[i + 1])
                i += 2
            elif a.startswith("-"):
                i += 1
            else:
                targets.append(a)
                i += 1
        if sim is not None:
            zt = [fs.zone(t)[0] or t for t in targets]
            sim.log("semgrep", len(configs), sorted(zt))
            sim.vclock += sim.rng_clock.uniform(1.0, 3.0)
        rules = []
        for c in configs:
            with real_open(c, "rb") as f:
                data = f.read()
            rules.append((c, sha(data), _rule_ids_of_yaml(data.decode("utf-8", "replace"))))
        dir_targets = [t for t in targets if os.path.isdir(t)]
        missing = [t for t in targets if not os.path.lexists(t)]
        if missing:
            # the real binary exits 2 when an explicit target does not exist (verified)
            return real_subprocess.CompletedProcess(command, 2, b"", b"Invalid scanning root (simulated from memoised behaviour)")
        results = []
        if dir_targets:
            fs.semgrep_stats["dir_mode"] += 1
            # directory walk: semgrep applies its own ignore rules; memoise on the whole tree
            h = []
            for t in sorted(targets):
                for dp, dn, fn in os.walk(t):
                    dn.sort()
                    for n in sorted(fn):
                        p = os.path.join(dp, n)
                        try:
                            if os.path.islink(p):
                                h.append((os.path.relpath(p, t), "l", os.readlink(p)))
                            else:
                                with real_open(p, "rb") as f:
                                    h.append((os.path.relpath(p, t), "f", sha(f.read())))
                        except OSError:
                            h.append((os.path.relpath(p, t), "?", ""))
            key = sha(json.dumps(["dir", sorted(r[1] for r in rules), h]).encode())
            val = _memo_get(key)
            if val is None:
                fs.semgrep_stats["misses"] += 1
                tmp_out = os.path.join(fs.zones["tmp"], f"real-semgrep-{fs.semgrep_stats['real_invocations']}.sarif")
                cp = _real_semgrep(configs, targets, tmp_out)
                if cp.returncode != 0:
                    return real_subprocess.CompletedProcess(command, cp.returncode, cp.stdout, cp.stderr)
                with real_open(tmp_out, "r", encoding="utf-8") as f:
                    data = json.load(f)
                res = []
                for run in data.get("runs", []):
                    for r in run.get("results", []):
                        r = json.loads(json.dumps(r).replace(targets[0].rstrip("/") + "/", "<DIR>/"))
                        r["ruleId"] = r["ruleId"].split(".")[-1]
                        res.append(r)
                val = {"results": res}
                _memo_put(key, val)
            else:
                fs.semgrep_stats["hits"] += 1
            for r in val["results"]:
                results.append(json.loads(json.dumps(r).replace("<DIR>/", targets[0].rstrip("/") + "/")))
        else:
            # explicit file targets: exact per-(rule file, target bytes) memoisation
            tinfo = []
            for t in targets:
                try:
                    with real_open(t, "rb") as f:
                        tb = f.read()
                    tinfo.append((t, sha(tb), os.path.splitext(t)[1]))
                except OSError:
                    tinfo.append((t, "unreadable", os.path.splitext(t)[1]))
            need_rules, need_targets = set(), set()
            cells = {}
            for (c, rsha, rids) in rules:
                for (t, tsha, ext) in tinfo:
                    key = sha(f"file:{rsha}:{tsha}:{ext}".encode())
                    val = _memo_get(key)
                    cells[(c, t)] = (key, val)
                    if val is None:
                        need_rules.add(c)
                        need_targets.add(t)
            if need_rules:
                fs.semgrep_stats["misses"] += sum(1 for v in cells.values() if v[1] is None)
                tmp_out = os.path.join(fs.zones["tmp"], f"real-semgrep-{fs.semgrep_stats['real_invocations']}.sarif")
                nr = [c for (c, _, _) in rules if c in need_rules]
                nt = [t for (t, _, _) in tinfo if t in need_targets]
                cp = _real_semgrep(nr, nt, tmp_out)
                if cp.returncode != 0:
                    return real_subprocess.CompletedProcess(command, cp.returncode, cp.stdout, cp.stderr)
                with real_open(tmp_out, "r", encoding="utf-8") as f:
                    data = json.load(f)
                got = {}
                for run in data.get("runs", []):
                    for r in run.get("results", []):
                        uri = r["locations"][0]["physicalLocation"]["artifactLocation"]["uri"]
                        rid = r["ruleId"].split(".")[-1]
                        r["ruleId"] = rid
                        got.setdefault((rid, uri), []).append(r)
                rsha_of = {c: (rsha, rids) for (c, rsha, rids) in rules}
                for (c, t), (key, val) in list(cells.items()):
                    if c in need_rules and t in need_targets:
                        res = []
                        for rid in rsha_of[c][1]:
                            for r in got.get((rid, t), []):
                                res.append(json.loads(json.dumps(r).replace(json.dumps(t)[1:-1], "<FILE>")))
                        val = {"results": res}
                        if cells[(c, t)][1] is None:
                            _memo_put(key, val)
                        cells[(c, t)] = (key, val)
            fs.semgrep_stats["hits"] += sum(1 for v in cells.values() if v[1] is not None) - (
                len(need_rules) * len(need_targets) if need_rules else 0)
            for (c, t), (key, val) in cells.items():
                for r in val["results"]:
                    results.append(json.loads(json.dumps(r).replace("<FILE>", json.dumps(t)[1:-1])))
        results.sort(key=_result_sort_key)
        sarif = {
            "$schema": "https://docs.oasis-open.org/sarif/sarif/v2.1.0/os/schemas/sarif-schema-2.1.0.json",
            "version": "2.1.0",
            "runs": [{
                "invocations": [{"executionSuccessful": True, "toolExecutionNotifications": []}],
                "results": results,
                "tool": {"driver": {"name": "Semgrep OSS", "semanticVersion": "1.90.0",
                                    "rules": [{"id": rid} for (_, _, rids) in rules for rid in rids]}},
            }],
        }
        with real_open(out, "w", encoding="utf-8") as f:
            json.dump(sarif, f)
        if sim is not None:
            sim.log("semgrep-done", len(results))
        return real_subprocess.CompletedProcess(command, 0, b"", b"")
    finally:
        fs.active = True


# ------------------------------------------------------------------------------------------
# wrappers around repository entry points (installed after import)


class _MarkerHandler(logging.Handler):
    """Uses the documented progress line `running codemod <id>` as the codemod boundary."""

    def emit(self, record):
        sim = sched.CURRENT
        if sim is None:
            return
        try:
            if record.msg == "running codemod %s" and record.args:
                cid = str(record.args[0])
                sim.codemod_index += 1
                sim.codemod_ids.append(cid)
                sim.log("codemod-begin", sim.codemod_index, cid)
        except Exception:
            pass


def install_repo_wrappers(repo_src):
    import libcst as cst
    from codemodder.codemods import base_codemod
    from codemodder.codemods import libcst_transformer
    import codemodder.codemodder as cm
    import codemodder.semgrep as cms
    import codemodder.utils.timer as timer
    import concurrent.futures as cf
    import datetime as real_datetime
    import time as real_time

    # thread pool
    base_codemod.ThreadPoolExecutor = _pool_factory
    if hasattr(base_codemod, "as_completed"):
        base_codemod.as_completed = sched.sim_as_completed
    if hasattr(base_codemod, "wait"):
        base_codemod.wait = sched.sim_wait
    # if the repo starts using `concurrent.futures.X` through the module object
    _RealTPE = cf.ThreadPoolExecutor
    seams_mod = sys.modules[__name__]
    seams_mod._RealTPE = _RealTPE

    threading.Thread.start = sched.thread_start_spy

    # clock
    timer.time = _VTimeModule(real_time)
    cm.datetime = _VDatetimeModule(real_datetime)

    # semgrep peer
    cms.subprocess = _SubprocessShim()

    # codemod boundary marker (documented progress line)
    logging.getLogger("codemodder").addHandler(_MarkerHandler(level=logging.INFO))

    # per-file entry point
    orig_pf = base_codemod.BaseCodemod._process_file

    def _process_file(self, filename, *a, **kw):
        sim = sched.CURRENT
        if sim is None:
            return orig_pf(self, filename, *a, **kw)
        zp = FS.zone(filename)[0] or str(filename)
        sim.tls.current_file = zp
        sim.tls.nodes = 0
        sim.file_enter(zp)
        sim.log("file-start", zp)
        try:
            sim.yield_point("task-start")
            hold = FS.fault("hold", zp)
            if hold is not None:
                for _ in range(int(hold.arg or 50)):
                    sim.yield_point("other")
            return orig_pf(self, filename, *a, **kw)
        finally:
            sim.file_exit(zp)
            sim.log("file-end", zp)
            sim.tls.current_file = None

    base_codemod.BaseCodemod._process_file = _process_file

    # transformer entry point (fault: transform-raise)
    orig_tr = libcst_transformer.LibcstResultTransformer.__dict__["transform"].__func__

    def transform(cls, module, results, file_context):
        if sched.CURRENT is not None and FS is not None:
            zp = FS.zone(file_context.file_path)[0]
            flt = FS.fault("transform", zp) if zp else None
            if flt is not None and flt.kind == "codegen-raise":
                # the transformer "succeeds" but hands back a tree that cannot be rendered (as a codemod building a malformed
                # node does): the failure surfaces when the pipeline asks for tree.code
                return _Unrenderable(orig_tr(cls, module, results, file_context))
            if flt is not None:
                raise RuntimeError("injected transformer failure")
        return orig_tr(cls, module, results, file_context)

    libcst_transformer.LibcstResultTransformer.transform = classmethod(transform)

    # node visit (fault: node-raise at the j-th visited node of the addressed file)
    orig_on_leave = cst.CSTTransformer.on_leave

    def on_leave(self, original_node, updated_node):
        sim = sched.CURRENT
        if sim is not None and FS is not None and FS.faults:
            cur = getattr(sim.tls, "current_file", None)
            if cur is not None:
                sim.tls.nodes = getattr(sim.tls, "nodes", 0) + 1
                for f in FS.faults:
                    if f.op == "node" and f.path == cur and (
                        f.codemod_index is None or f.codemod_index == sim.codemod_index
                    ) and sim.tls.nodes == f.nth:
                        f.fired += 1
                        sim.log("fault", "node-raise", cur, f.nth)
                        raise RuntimeError("injected failure at visited node")
        return orig_on_leave(self, original_node, updated_node)

    cst.CSTTransformer.on_leave = on_leave


def _pool_factory(*a, **kw):
    sim = sched.CURRENT
    if sim is not None and getattr(sim, "real_pool", False):
        import concurrent.futures.thread as cft

        class _Marked(cft.ThreadPoolExecutor):
            def _adjust_thread_count(self):
                before = set(self._threads)
                orig = threading.Thread.start
                threading.Thread.start = sched._real_thread_start
                try:
                    super()._adjust_thread_count()
                finally:
                    threading.Thread.start = orig

        sim.max_workers_seen.append(kw.get("max_workers", a[0] if a else None))
        return _Marked(*a, **kw)
    return sched.SimThreadPool(*a, **kw)
