"""Normalisation of outcomes for relational oracles. Order of results / changeset / changes /
failedFiles / unfixedFindings is KEPT (order is part of several properties)."""
import copy
import re


def norm_report(report, mask_tokens=()):
    """report already has the sandbox root replaced by <S> (runner). Removes timing; masks the
    value following each option named in mask_tokens inside run.commandLine."""
    if report is None:
        return None
    r = copy.deepcopy(report)
    run = r.get("run", {})
    run.pop("elapsed", None)
    cl = run.get("commandLine")
    if isinstance(cl, str):
        toks = cl.split(" ")
        out = []
        skip = False
        for t in toks:
            if skip:
                skip = False
                continue
            if t in mask_tokens and t not in ("--dry-run",):
                skip = True
                continue
            if t in ("--dry-run", "--no-dry-run") and "--dry-run" in mask_tokens:
                continue
            out.append(t)
        run["commandLine"] = " ".join(out)
    return r


def results_by_codemod(report):
    out = {}
    if not report:
        return out
    for res in report.get("results", []):
        out.setdefault(res.get("codemod"), []).append(res)
    return out


def outcome_key(outcome, mask_tokens=("--max-workers",)):
    """the part of an outcome that C11-style oracles require to be constant"""
    return {
        "status": outcome["status"],
        "exception": (outcome["exception"] or "").split(":")[0] if outcome["exception"] else None,
        "changed": outcome["changed"],
        "report": norm_report(outcome["report"], mask_tokens),
        "report_present": outcome["report_present"],
    }


def strip_volatile_stdout(s):
    return re.sub(r"\d+ ms", "<n> ms", s)
