"""Runs ONE execution (one simulated CLI invocation) inside a forked child of the zygote."""
import hashlib
import io
import json
import os
import shutil
import sys
import traceback

from . import sched, seams
from .util import dec, enc, sha

_o = seams._o
real_open = seams.real_open


def _subst(s, root):
    return (
        s.replace("<T>", os.path.join(root, "T"))
        .replace("<O>", os.path.join(root, "O"))
        .replace("<R>", os.path.join(root, "R"))
        .replace("<X>", os.path.join(root, "X"))
        .replace("<S>", root)
    )


def snapshot(base):
    """relpath -> [type, mode, size, sha|target, mtime_ns, ino]; uses unpatched os functions"""
    snap = {}
    stack = [""]
    while stack:
        rel = stack.pop()
        d = os.path.join(base, rel) if rel else base
        try:
            with _o["scandir"](d) as it:
                entries = sorted(it, key=lambda e: e.name)
        except OSError:
            continue
        for e in entries:
            r = os.path.join(rel, e.name) if rel else e.name
            st = e.stat(follow_symlinks=False)
            if e.is_symlink():
                snap[r] = ["l", st.st_mode & 0o7777, 0, os.readlink(e.path), st.st_mtime_ns, st.st_ino]
            elif e.is_dir(follow_symlinks=False):
                snap[r] = ["d", st.st_mode & 0o7777, 0, "", 0, st.st_ino]
                stack.append(r)
            elif not e.is_file(follow_symlinks=False):
                snap[r] = ["s", st.st_mode & 0o7777, 0, "special", 0, st.st_ino]  # FIFO etc.: never opened by the harness
            else:
                try:
                    with real_open(e.path, "rb") as f:
                        h = sha(f.read())
                except OSError:
                    h = "unreadable"
                snap[r] = ["f", st.st_mode & 0o7777, st.st_size, h, st.st_mtime_ns, st.st_ino]
    return snap


def materialise(world, root):
    for z in ("T", "X", "R", "O", "tmp"):
        os.makedirs(os.path.join(root, z), exist_ok=True)
    T = os.path.join(root, "T")
    X = os.path.join(root, "X")
    for d in world.get("dirs", []):
        os.makedirs(os.path.join(T, d), exist_ok=True)
    files = world.get("files", {})
    order = world.get("order") or sorted(files)
    for rel in order:
        p = os.path.join(T, rel)
        os.makedirs(os.path.dirname(p), exist_ok=True)
        with real_open(p, "wb") as f:
            f.write(dec(files[rel]))
    for rel, data in sorted(world.get("outside", {}).items()):
        p = os.path.join(X, rel)
        os.makedirs(os.path.dirname(p), exist_ok=True)
        with real_open(p, "wb") as f:
            f.write(dec(data))
    for rel, data in sorted(world.get("results", {}).items()):
        p = os.path.join(root, "R", rel)
        os.makedirs(os.path.dirname(p), exist_ok=True)
        with real_open(p, "wb") as f:
            f.write(_subst(dec(data).decode("utf-8"), root).encode("utf-8") if world.get("results_subst", True) else dec(data))
    for rel, target in sorted(world.get("symlinks", {}).items()):
        p = os.path.join(T, rel)
        os.makedirs(os.path.dirname(p), exist_ok=True)
        _o["symlink"](_subst(target, root), p)
    for rel in world.get("fifos", []):
        p = os.path.join(T, rel)
        os.makedirs(os.path.dirname(p), exist_ok=True)
        os.mkfifo(p)
    for rel, mode in sorted(world.get("modes", {}).items()):
        _o["chmod"](os.path.join(T, rel), mode)
    for rel in world.get("extra_dirs_S", []):
        os.makedirs(os.path.join(root, rel), exist_ok=True)
    # fixed mtimes so that nothing depends on wall time
    for base in (T, X):
        for dp, dn, fn in os.walk(base):
            for n in fn:
                try:
                    _o["utime"](os.path.join(dp, n), ns=(10**18, 10**18), follow_symlinks=False)
                except OSError:
                    pass


def run_execution(spec, repo_src, shm):
    os.makedirs(shm, exist_ok=True)
    root = os.path.realpath(os.path.join(shm, f"x{os.getpid():08d}"))  # fixed length: no size-class effects on the heap
    if os.path.exists(root):
        shutil.rmtree(root)
    os.makedirs(root)
    try:
        return _run(spec, repo_src, root)
    finally:
        seams.FS = None
        shutil.rmtree(root, ignore_errors=True)


def _run(spec, repo_src, root):
    import tempfile

    probes = {"start": [id(object()), id([]), id({}), id("x" * 40)]}
    world = spec.get("world", {})
    materialise(world, root)
    probes["after_world"] = [id(object()), id([]), id({})]
    T = os.path.join(root, "T")
    X = os.path.join(root, "X")
    tempfile.tempdir = os.path.join(root, "tmp")
    os.environ["TMPDIR"] = tempfile.tempdir
    for k in list(os.environ):
        if k.startswith("CODEMODDER_") or k.startswith("OPENAI") or k.startswith("AZURE"):
            del os.environ[k]
    for k, v in (spec.get("env") or {}).items():
        os.environ[k] = v
    os.environ["PATH"] = "/venv/bin:" + os.environ.get("PATH", "")
    os.chdir(_subst(spec.get("cwd", "<S>"), root))

    # heap shift: perturb id() order crudely
    _keep = [object() for _ in range(int(spec.get("heap_shift", 0)))]

    # no forced GIL hand-overs: threads switch only where one blocks, i.e. exactly at the scheduler's baton hand-overs
    # (a timer-driven switch inside a hand-over window would reorder allocations of the two threads)
    sys.setswitchinterval(1000.0)
    sim = sched.Sim(spec.get("sched"), repo_src)
    sim.plugins = bool(spec.get("plugins"))
    sim.real_pool = bool(spec.get("real_pool"))
    sched.CURRENT = sim
    memo_dir = os.environ.get("SIMBOX_SEMGREP_MEMO", "/verif/.cache/semgrep")
    fs = seams.FsState(root, spec.get("enum_seed"), spec.get("faults"), {"memo_dir": memo_dir})
    seams.FS = fs

    before_T = snapshot(T)
    before_X = snapshot(X)

    # capture stdout / stderr at fd level (the semgrep peer may inherit them)
    out_p = os.path.join(root, "stdout.txt")
    err_p = os.path.join(root, "stderr.txt")
    sys.stdout.flush()
    sys.stderr.flush()
    fo = _o["open"](out_p, os.O_WRONLY | os.O_CREAT | os.O_TRUNC, 0o600)
    fe = _o["open"](err_p, os.O_WRONLY | os.O_CREAT | os.O_TRUNC, 0o600)
    os.dup2(fo, 1)
    os.dup2(fe, 2)
    sys.stdout = io.TextIOWrapper(io.FileIO(1, "w", closefd=False), encoding="utf-8", errors="backslashreplace", line_buffering=True)
    sys.stderr = io.TextIOWrapper(io.FileIO(2, "w", closefd=False), encoding="utf-8", errors="backslashreplace", line_buffering=True)

    probes["before_run"] = [id(object()), id([]), id({})]
    argv = [_subst(a, root) for a in spec.get("argv", [])]
    sys.argv = ["codemodder"] + argv
    status = None
    exc = None
    tb = None
    import codemodder.codemodder as cm

    call_result = None
    try:
        try:
            if spec.get("call"):
                from . import calls

                call_result = calls.CALLS[spec["call"]["name"]](spec, root)
                status = 0
            else:
                status = cm.run(argv)
        except SystemExit as e:
            status = e.code if isinstance(e.code, int) or e.code is None else 1
            if status is None:
                status = 0
        sim.drain()
    except (sched.SimStuck, sched.StepCapExceeded) as e:
        exc = f"HARNESS:{type(e).__name__}: {e}"
        tb = traceback.format_exc()
    except BaseException as e:  # an escaping exception = traceback + exit status 1 at the process boundary
        exc = f"{type(e).__name__}: {e}"
        tb = traceback.format_exc()
        try:
            sim.drain()
        except BaseException:
            pass
    probes["after_run"] = [id(object()), id([]), id({}), id((1, 2, 3)), id(3.14159 * len(argv))]
    fs.active = False
    sched.CURRENT = None
    try:
        sys.stdout.flush()
        sys.stderr.flush()
    except Exception:
        pass

    after_T = snapshot(T)
    after_X = snapshot(X)

    def diff_snap(b, a, base):
        changed = {}
        meta_only = []
        for r in sorted(set(b) | set(a)):
            if r not in a:
                changed[r] = None
            elif r not in b or b[r][:4] != a[r][:4]:
                if a[r][0] == "f":
                    with real_open(os.path.join(base, r), "rb") as f:
                        changed[r] = enc(f.read())
                else:
                    changed[r] = {"meta": a[r][:4]}
            elif b[r][4:] != a[r][4:]:
                meta_only.append(r)
        return changed, meta_only

    changed_T, meta_T = diff_snap(before_T, after_T, T)
    changed_X, meta_X = diff_snap(before_X, after_X, X)

    report_path = _subst(spec.get("report_path", "<O>/report.codetf"), root)
    report = None
    report_raw = None
    report_error = None
    if os.path.isfile(report_path):
        try:
            with real_open(report_path, "rb") as f:
                report_raw = f.read()
            report = json.loads(report_raw.decode("utf-8"))
        except Exception as e:
            report_error = f"{type(e).__name__}: {e}"

    def read_txt(p, limit=200_000):
        try:
            with real_open(p, "rb") as f:
                return f.read()[:limit].decode("utf-8", "backslashreplace").replace(root, "<S>")
        except OSError:
            return ""

    def norm_paths(obj):
        s = json.dumps(obj)
        return json.loads(s.replace(json.dumps(root)[1:-1], "<S>"))

    # files written through the seam whose mutation is not explained by a logged event
    logged = {m[1] for m in fs.mutations}
    seam_gap = [r for r in list(changed_T) + meta_T if f"<T>/{r}" not in logged and
                not any(l.startswith(f"<T>/{r}") for l in logged)]

    coarse = [e for e in sim.events if e[0] in ("pool", "file-start", "file-end", "codemod-begin", "fault")]
    outcome = {
        "name": spec.get("name"),
        "call_result": call_result,
        "status": status,
        "exception": exc,
        "traceback": tb.replace(root, "<S>") if tb else None,
        "stdout": read_txt(out_p),
        "stderr": read_txt(err_p),
        "report": norm_paths(report) if report is not None else None,
        "report_present": report_raw is not None,
        "report_size": len(report_raw) if report_raw is not None else None,
        "report_error": report_error,
        "tree_before": {k: v[:4] for k, v in before_T.items()},
        "tree_after": {k: v[:4] for k, v in after_T.items()},
        "changed": changed_T,
        "meta_only_changed": meta_T,
        "outside_changed": sorted(changed_X) + meta_X,
        "seam_gap": seam_gap,
        "writes": fs.writes,
        "mutations": fs.mutations,
        "escapes": fs.escapes,
        "codemod_ids": sim.codemod_ids,
        "log_digest": sim.digest.hexdigest(),
        "n_events": len(sim.events),
        "events": norm_paths(sim.events if spec.get("keep_events") else sim.events[:60]),
        "coarse_trace_digest": hashlib.sha256(repr(coarse).encode()).hexdigest()[:16],
        "decisions": sim.decisions if len(sim.decisions) <= 20000 else None,
        "debug_lines": sim.debug_lines,
        "heap_probes": probes,
        "debug_ids": sim.debug_ids,
        "n_decisions": len(sim.decisions),
        "stats": {
            "steps": sim.steps,
            "preemptions": sim.preemptions,
            "max_inflight": sim.max_inflight,
            "max_inflight_pool": sim.max_inflight_pool,
            "max_workers_seen": sim.max_workers_seen,
            "overlap_pairs": sorted(map(list, sim.overlap_pairs)),
            "uncontrolled_threads": sim.uncontrolled_threads,
            "virtual_s": round(sim.vclock - sim.vclock0, 6),
            "faults": [{"kind": f.kind, "op": f.op, "seen": f.seen, "fired": f.fired} for f in fs.faults],
            "semgrep": fs.semgrep_stats,
            "fs_counts": fs.counts,
            "third_not_started_probe": sim.third_not_started_probe,
            "explicit_diverged": sim.explicit_diverged,
            "pools": len(sim.pools),
        },
    }
    return outcome
