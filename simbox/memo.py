"""Semgrep memo persistence: .cache/semgrep/<k2>/<key>.json (working store, git-ignored) and
corpus/semgrep_memo.json.gz (committed snapshot, unpacked by setup)."""
import gzip
import json
import os

from .coord import VERIF

CACHE = os.path.join(VERIF, ".cache", "semgrep")
PACK = os.path.join(VERIF, "corpus", "semgrep_memo.json.gz")


def pack():
    d = {}
    for dp, dn, fn in os.walk(CACHE):
        for n in fn:
            if n.endswith(".json"):
                try:
                    with open(os.path.join(dp, n), encoding="utf-8") as f:
                        d[n[:-5]] = json.load(f)
                except (OSError, ValueError):
                    pass
    with gzip.open(PACK, "wt", encoding="utf-8", compresslevel=9) as f:
        json.dump(d, f, sort_keys=True)
    print(f"packed {len(d)} memo entries -> {PACK} ({os.path.getsize(PACK)} bytes)")
    return 0


def unpack():
    if not os.path.exists(PACK):
        print("no committed semgrep memo; misses will run the real binary")
        return 0
    with gzip.open(PACK, "rt", encoding="utf-8") as f:
        d = json.load(f)
    n = 0
    for k, v in d.items():
        dd = os.path.join(CACHE, k[:2])
        p = os.path.join(dd, k + ".json")
        if not os.path.exists(p):
            os.makedirs(dd, exist_ok=True)
            with open(p + ".tmp", "w", encoding="utf-8") as f:
                json.dump(v, f, sort_keys=True)
            os.replace(p + ".tmp", p)
            n += 1
    print(f"unpacked {n} new of {len(d)} memo entries")
    return 0
