"""Determinism and fidelity self-tests of the simulator (DESIGN.md 2.6).
 * every execution spec, run twice in the same pool, once more in a fresh pool with another
   worker count, yields identical event-log digests and outcome digests;
 * experiment generation does not depend on the coordinator's PYTHONHASHSEED;
 * the simulated pool and the real ThreadPoolExecutor give identical normalised outcomes.
Exit 0 ok / 3 failed (never a VIOLATION line)."""
import json
import os
import random
import subprocess
import sys
import time

from .coord import VERIF, ZygotePool
from .framework import Ctx
from .normalize import outcome_key
from .util import jdigest


def _specs(seed, n):
    from checks.c11 import CHECK, build_argv
    from . import world as W

    specs = []
    i = 0
    while len(specs) < n:
        rng = random.Random(f"{seed}:selftest:{i}")
        i += 1
        exp = CHECK.gen(rng, i, "quick")
        if exp is None:
            continue
        world, meta = W.build_world(exp["world_spec"])
        p = exp["perturbations"][rng.randrange(1, len(exp["perturbations"]))]
        argv, results = build_argv(exp, meta, p.get("workers"))
        world["results"] = results
        specs.append({"name": "st", "world": world, "argv": argv, "hashseed": p["hashseed"] % 4, "sched": p["sched"],
                      "enum_seed": p["enum_seed"], "heap_shift": p["heap_shift"]})
    # faulted executions (every seam fault kind) and plugin pipelines: determinism must also hold with faults firing
    from checks.c10 import CHECK as C10

    j = 0
    for exp in C10.extra_batches("quick"):
        if exp["seam_faults"] and j % 9 == 0 and len([x for x in specs if x["name"] == "st-fault"]) < max(6, n // 4):
            world_ref, world_fault, argv, plan, info = C10._build(exp)
            specs.append({"name": "st-fault", "world": world_fault, "argv": argv, "hashseed": 0,
                          "sched": {"seed": j, "policy": "uniform", "line_p": 0.01}, "enum_seed": j, "faults": plan,
                          "plugins": exp["pipeline"] == "xml"})
        j += 1
    from checks.c20 import make_exp, FILES, REPORT_FAULTS
    from .util import enc as _enc

    for var in range(len(REPORT_FAULTS)):
        e = make_exp([("report-unwritable", var)], None)
        specs.append({"name": "st-report-fault", "world": {"files": {k: _enc(v.encode()) for k, v in FILES.items()}, "results": e["results"],
                                                            "extra_dirs_S": e.get("extra_dirs_S", [])},
                      "argv": e["argv"], "env": e["env"], "faults": e["faults"], "report_path": e["report_path"], "hashseed": 0,
                      "sched": {"seed": var, "policy": "round-robin", "line_p": 0.0}})
    # canary: a world whose outcome depended on memory addresses before the find_assignments fix; kept because it
    # detects any heap-state leak between executions (id()-dependent set order) - every copy must agree
    canary_src = ("\nfrom flask import Flask\napp = Flask(__name__)\napp2 = Flask(__name__)\n\n" * 2
                  + "\nfrom flask import Flask\napp = Flask(__name__); app2 = Flask(__name__)\n")
    for h in (0, 1, 100):
        specs.append({"name": "canary", "world": {"files": {"h.py": {"t": canary_src}}},
                      "argv": ["<T>", "--output", "<O>/report.codetf", "--codemod-include", "pixee:python/flask-enable-csrf-protection"],
                      "hashseed": 0, "sched": {"seed": 1, "policy": "fifo", "line_p": 0.0}, "enum_seed": None, "heap_shift": h})
    return specs


def gen_digest(seed, n):
    return jdigest(_specs(seed, n))


def main(tier, seed, jobs):
    t0 = time.time()
    n = 24 if tier == "quick" else 200
    specs = _specs(seed, n)
    ok = True
    # generation independent of the coordinator's hash seed
    env = dict(os.environ, PYTHONHASHSEED="7")
    code = f"import sys; sys.path.insert(0, {VERIF!r}); from simbox import selftest; print(selftest.gen_digest({seed}, {n}))"
    other = subprocess.run(["/venv/bin/python", "-c", code], env=env, capture_output=True, text=True).stdout.strip()
    if other != jdigest(specs):
        print("SELFTEST-FAIL: experiment generation depends on the coordinator's PYTHONHASHSEED")
        ok = False

    def dig(o):
        return (o["log_digest"], jdigest(outcome_key(o)), jdigest(o["decisions"]))

    pool = ZygotePool(jobs=jobs)
    ctx = Ctx(pool)
    a = ctx.run_many(specs)
    b = ctx.run_many(specs)
    pool.close()
    pool2 = ZygotePool(jobs=max(2, jobs // 4))
    ctx2 = Ctx(pool2)
    c = ctx2.run_many(specs)
    # fidelity against the real executor
    real_specs = [dict(s, real_pool=True) for s in specs]
    r = ctx2.run_many(real_specs)
    pool2.close()
    n_div = 0
    n_drift = 0
    for i, (x, y, z) in enumerate(zip(a, b, c)):
        if dig(x) == dig(y) == dig(z):
            continue
        fine = float((specs[i].get("sched") or {}).get("line_p", 0.0)) > 0
        same_outcome = dig(x)[1] == dig(y)[1] == dig(z)[1]
        if fine and same_outcome:
            # line-level pre-emption: object addresses inside worker threads are not fully reproducible (libcst code
            # generation in a thread), so code iterating an address-ordered set may execute a line more or less and
            # shift a pre-emption point. The outcome must still be identical; the drift is counted, not failed.
            n_drift += 1
            continue
        n_div += 1
        print(f"SELFTEST-FAIL: spec {i} diverged: {dig(x)} {dig(y)} {dig(z)}")
    n_fid = 0
    for i, (x, y) in enumerate(zip(a, r)):
        if outcome_key(x) != outcome_key(y):
            n_fid += 1
            print(f"SELFTEST-FAIL: spec {i}: simulated pool and real ThreadPoolExecutor disagree")
    if n_div or n_fid:
        ok = False
    steps = sum(o["stats"]["steps"] for o in a)
    print(f"selftest: specs={len(specs)} x (2 runs same pool + 1 fresh pool/other worker count + 1 real executor); "
          f"diverged={n_div} fine_schedule_drift={n_drift} fidelity_mismatch={n_fid} scheduling_steps={steps} wall={time.time() - t0:.1f}s")
    os.makedirs(os.path.join(VERIF, "evidence"), exist_ok=True)
    with open(os.path.join(VERIF, "selftest_report.json"), "w") as f:
        json.dump({"specs": len(specs), "diverged": n_div, "fine_schedule_drift": n_drift, "fidelity_mismatch": n_fid, "ok": ok, "tier": tier, "seed": seed,
                   "wall_s": round(time.time() - t0, 1)}, f)
    return 0 if ok else 3
