"""Worker ("zygote"): a fresh interpreter with a pinned PYTHONHASHSEED that imports the code under
test from $VERIF_REPO/src with all seams installed, then forks one child per execution.

Protocol (JSON lines on two inherited pipe fds given as argv[1] (in) and argv[2] (out), so that stdout/stderr of the code under test and of
the semgrep peer never touch the channel):
  -> {"spec_path": "...json"}           <- {"ok": true, "outcome_path": "..."} | {"ok": false, "error": "..."}
"""
import faulthandler
import json
import os
import signal
import sys
import time
import traceback

HERE = os.path.dirname(os.path.abspath(__file__))
sys.path.insert(0, os.path.dirname(HERE))

REPO = os.environ.get("VERIF_REPO", "/repo")
REPO_SRC = os.path.realpath(os.path.join(REPO, "src"))
SHM = os.environ.get("SIMBOX_SHM", "/dev/shm/simbox")
EXEC_WALL_S = float(os.environ.get("SIMBOX_EXEC_WALL_S", "180"))


def _setup_imports():
    # the working tree under test goes first on sys.path (no build step needed)
    sys.path.insert(0, REPO_SRC)
    from simbox import seams

    seams.install_fs()
    import codemodder  # noqa
    import codemodder.codemodder  # noqa

    assert os.path.realpath(codemodder.__file__).startswith(REPO_SRC), (
        "code under test not imported from VERIF_REPO",
        codemodder.__file__,
    )
    # warm up: import every submodule so that no lazy import happens under the scheduler
    import importlib
    import pkgutil

    for pkgname in ("codemodder", "core_codemods"):
        pkg = importlib.import_module(pkgname)
        for m in pkgutil.walk_packages(pkg.__path__, pkgname + "."):
            if ".scripts" in m.name or ".test" in m.name:
                continue
            try:
                importlib.import_module(m.name)
            except Exception:
                pass
    from codemodder import registry

    reg = registry.load_registered_codemods()
    for c in reg.codemods:
        try:
            c.description  # cached_property reading docs: warm the import/resource machinery
        except Exception:
            pass
    import libcst.matchers  # noqa
    import libcst.codemod.visitors  # noqa
    import isort  # noqa

    seams.install_repo_wrappers(REPO_SRC)
    from simbox import plugins

    plugins.install(registry)


def main():
    rfd, wfd = int(sys.argv[1]), int(sys.argv[2])
    rin = os.fdopen(rfd, "r", encoding="utf-8")
    wout = os.fdopen(wfd, "w", encoding="utf-8")
    try:
        _setup_imports()
    except BaseException:
        wout.write(json.dumps({"ready": False, "error": traceback.format_exc()}) + "\n")
        wout.flush()
        return 3
    wout.write(json.dumps({"ready": True, "hashseed": os.environ.get("PYTHONHASHSEED")}) + "\n")
    wout.flush()
    from simbox import runner

    n = 0
    for line in rin:
        line = line.strip()
        if not line:
            continue
        job = json.loads(line)
        if job.get("quit"):
            break
        n += 1
        spec_path = job["spec_path"]
        out_path = spec_path + ".out"
        pid = os.fork()
        if pid == 0:
            # child: one execution
            code = 0
            try:
                rin.close()
                faulthandler.enable(file=sys.__stderr__)
                faulthandler.dump_traceback_later(EXEC_WALL_S - 5, exit=True, file=sys.__stderr__)
                with open(spec_path, "r", encoding="utf-8") as f:
                    spec = json.load(f)
                outcome = runner.run_execution(spec, REPO_SRC, SHM)
                from simbox.seams import real_open

                with real_open(out_path + ".tmp", "w", encoding="utf-8") as f:
                    json.dump(outcome, f)
                os.replace(out_path + ".tmp", out_path)
            except BaseException:
                code = 70
                try:
                    from simbox.seams import real_open

                    with real_open(out_path + ".err", "w", encoding="utf-8") as f:
                        f.write(traceback.format_exc())
                except BaseException:
                    pass
            finally:
                os._exit(code)
        # parent
        deadline = time.monotonic() + EXEC_WALL_S
        status = None
        while True:
            wpid, st = os.waitpid(pid, os.WNOHANG)
            if wpid == pid:
                status = st
                break
            if time.monotonic() > deadline:
                try:
                    os.kill(pid, signal.SIGKILL)
                except OSError:
                    pass
                os.waitpid(pid, 0)
                status = -1
                break
            time.sleep(0.002)
        if status == 0 and os.path.exists(out_path):
            wout.write(json.dumps({"ok": True, "outcome_path": out_path}) + "\n")
        else:
            err = ""
            try:
                with open(out_path + ".err") as f:
                    err = f.read()
                os.unlink(out_path + ".err")
            except OSError:
                pass
            kind = "timeout" if status == -1 else "harness-error"
            wout.write(json.dumps({"ok": False, "kind": kind, "status": status, "error": err[-4000:]}) + "\n")
        wout.flush()
    return 0


if __name__ == "__main__":
    sys.exit(main())
