"""Worker ("zygote"): a fresh interpreter with a pinned PYTHONHASHSEED that imports the code under
test from $VERIF_REPO/src with all seams installed, then forks one child per execution.

Protocol (JSON lines on two inherited pipe fds given as argv[1] (in) and argv[2] (out), so that stdout/stderr of the code under test and of
the semgrep peer never touch the channel):
  -> {"spec_path": "...json"}           <- {"ok": true, "outcome_path": "..."} | {"ok": false, "error": "..."}
"""
import faulthandler
import json
import os
import signal
import sys
import time
import traceback

HERE = os.path.dirname(os.path.abspath(__file__))
sys.path.insert(0, os.path.dirname(HERE))

REPO = os.environ.get("VERIF_REPO", "/repo")
REPO_SRC = os.path.realpath(os.path.join(REPO, "src"))
SHM = os.environ.get("SIMBOX_SHM", "/dev/shm/simbox")
EXEC_WALL_S = float(os.environ.get("SIMBOX_EXEC_WALL_S", "180"))


def _setup_imports():
    # the working tree under test goes first on sys.path (no build step needed)
    sys.path.insert(0, REPO_SRC)
    from simbox import seams

    seams.install_fs()
    import codemodder  # noqa
    import codemodder.codemodder  # noqa

    assert os.path.realpath(codemodder.__file__).startswith(REPO_SRC), (
        "code under test not imported from VERIF_REPO",
        codemodder.__file__,
    )
    # warm up: import every submodule so that no lazy import happens under the scheduler.
    # (pkgutil.walk_packages is not used: it imports codemodder.codemods.test, whose import is not
    # heap-deterministic - pytest/mock machinery - which broke replay of id()-dependent behaviour)
    import importlib

    names = []
    for pkgname in ("codemodder", "core_codemods"):
        base = os.path.join(REPO_SRC, pkgname)
        for dp, dn, fn in os.walk(base):
            dn[:] = sorted(d for d in dn if d not in ("test", "scripts", "__pycache__", "docs"))
            rel = os.path.relpath(dp, REPO_SRC).replace(os.sep, ".")
            for n in sorted(fn):
                if n.endswith(".py") and n != "__main__.py":
                    names.append(rel if n == "__init__.py" else f"{rel}.{n[:-3]}")
    for name in names:
        try:
            importlib.import_module(name)
        except Exception:
            pass
    from codemodder import registry

    reg = registry.load_registered_codemods()
    for c in reg.codemods:
        try:
            c.description  # cached_property reading docs: warm the import/resource machinery
        except Exception:
            pass
    import libcst.matchers  # noqa
    import libcst.codemod.visitors  # noqa
    import isort  # noqa

    seams.install_repo_wrappers(REPO_SRC)
    from simbox import plugins

    plugins.install(registry)


def _read_line(fd):
    buf = bytearray()
    while True:
        b = os.read(fd, 1)
        if not b:
            return None
        if b == b"\n":
            return bytes(buf)
        buf += b


def _child(rfd, wfd):
    """one execution; reads its own job so that the zygote's heap never depends on job data"""
    line = _read_line(rfd)
    if line is None:
        os._exit(99)  # coordinator closed the channel
    code = 70
    try:
        job = json.loads(line.decode("utf-8"))
        if job.get("quit"):
            os._exit(99)
        from simbox import runner
        from simbox.seams import real_open

        spec_path = job["spec_path"]
        out_path = spec_path + ".out"
        faulthandler.enable(file=sys.__stderr__)
        faulthandler.dump_traceback_later(EXEC_WALL_S + 20, exit=True, file=sys.__stderr__)
        with real_open(spec_path, "r", encoding="utf-8") as f:
            spec = json.load(f)
        outcome = runner.run_execution(spec, REPO_SRC, SHM)
        with real_open(out_path + ".tmp", "w", encoding="utf-8") as f:
            json.dump(outcome, f)
        os.replace(out_path + ".tmp", out_path)
        os.write(wfd, (json.dumps({"ok": True, "outcome_path": out_path}) + "\n").encode())
        code = 0
    except BaseException:
        try:
            os.write(wfd, (json.dumps({"ok": False, "kind": "harness-error", "error": traceback.format_exc()[-4000:]}) + "\n").encode())
            code = 71
        except BaseException:
            pass
    finally:
        os._exit(code)


READY = (json.dumps({"ready": True}) + "\n").encode()


def main():
    rfd, wfd = int(sys.argv[1]), int(sys.argv[2])
    try:
        _setup_imports()
    except BaseException:
        os.write(wfd, (json.dumps({"ready": False, "error": traceback.format_exc()}) + "\n").encode())
        return 3
    # The parent performs the same allocation sequence between any two forks, so every child starts from the same
    # heap (id()-dependent behaviour of the code under test then replays). The first WARMUP iterations run the very
    # same loop body with children that exit at once: they bring the parent's allocator into its steady state.
    WARMUP = 4
    n = 0
    announced = False
    while True:
        if n == WARMUP and not announced:
            os.write(wfd, READY)
            announced = True
        pid = os.fork()
        if pid == 0:
            if n < WARMUP:
                os._exit(0)
            _child(rfd, wfd)
        _, st = os.waitpid(pid, 0)
        n = n + 1 if n < WARMUP else WARMUP
        if st == 0:
            continue
        code = os.waitstatus_to_exitcode(st)
        if code == 99:
            break
        if code != 71:
            os.write(wfd, (json.dumps({"ok": False, "kind": "harness-error", "status": code,
                                       "error": "execution child died without a reply"}) + "\n").encode())
    return 0


if __name__ == "__main__":
    sys.exit(main())
