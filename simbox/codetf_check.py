"""C15 oracle: vendored schema + structural invariants relating the report to the run that
produced it.  Returns a list of (clause, detail)."""
import json
import os
from functools import lru_cache

from .udiff import PatchError, apply_unified, split_nl
from .util import dec
from .world import CORPUS


@lru_cache(None)
def _validator():
    import jsonschema

    with open(os.path.join(CORPUS, "codetf.schema.json"), encoding="utf-8") as f:
        schema = json.load(f)
    return jsonschema.Draft202012Validator(schema)


# clauses about the report as a whole (what C10 / C14 mean by "writes a valid report"); the remaining clauses are content
# invariants of individual codemods and are C15's own business
STRUCTURAL = {"report-missing-or-unparsable", "schema", "results-vs-execution-order", "duplicate-result", "failed-and-changed",
              "changeset-path-missing", "changeset-path-not-relative"}


TOOL_OF_ORIGIN = {"sonar": "Sonar", "semgrep": "Semgrep", "defectdojo": "DefectDojo", "codeql": "CodeQL"}


def _nlines(data: bytes) -> int:
    return len(split_nl(data.decode("utf-8", "replace")))


def check_report(outcome, world_files, dry_run=False, sast_ids=None):
    """outcome: runner outcome; world_files: rel -> enc (content before the run)."""
    problems = []
    rep = outcome.get("report")
    if rep is None:
        return [("report-missing-or-unparsable", {"present": outcome.get("report_present"), "error": outcome.get("report_error")})]
    for err in sorted(_validator().iter_errors(rep), key=lambda e: list(e.path))[:5]:
        problems.append(("schema", {"path": "/".join(map(str, err.path)), "message": err.message[:200]}))
    results = rep.get("results", [])
    ids = [r.get("codemod") for r in results]
    executed = outcome.get("codemod_ids", [])
    # when nothing was scanned (no files / no codemods) the progress markers are absent: the results then list the
    # selected codemods, which the statement does not forbid
    if executed and ids != executed:
        problems.append(("results-vs-execution-order", {"report": ids[:20], "executed": outcome.get("codemod_ids", [])[:20]}))
    if len(set(ids)) != len(ids):
        problems.append(("duplicate-result", {"ids": ids[:20]}))
    # content before each codemod: replay the write log
    cur = {rel: dec(v) for rel, v in world_files.items()}
    writes_by_ci = {}
    for w in outcome.get("writes", []):
        if w["path"].startswith("<T>/"):
            writes_by_ci.setdefault(w["ci"], []).append(w)
    after_tree = outcome.get("tree_after", {})
    for ci, res in enumerate(results):
        cid = res.get("codemod")
        if not res.get("references") and res.get("references") != []:
            problems.append(("references-absent", {"codemod": cid}))
        before_k = dict(cur)
        for w in writes_by_ci.get(ci, []):
            rel = w["path"][4:]
            if w["after"] is not None:
                cur[rel] = dec(w["after"])
        failed = set(res.get("failedFiles") or [])
        changed = set()
        for cs in res.get("changeset", []):
            p = cs.get("path", "")
            changed.add(p)
            if os.path.isabs(p) or p.startswith("..") or "<S>" in p:
                problems.append(("changeset-path-not-relative", {"codemod": cid, "path": p}))
                continue
            exists = (p in world_files) if dry_run else (p in after_tree and after_tree[p][0] == "f")
            if not exists:
                problems.append(("changeset-path-missing", {"codemod": cid, "path": p}))
                continue
            b = before_k.get(p, b"")
            a = cur.get(p, b)
            n_before = _nlines(b)
            n_after = _nlines(a)
            if dry_run or a == b:
                try:
                    n_after = len(split_nl(apply_unified(cs.get("diff", ""), b.decode("utf-8", "replace"))))
                except PatchError:
                    n_after = n_before + sum(1 for l in cs.get("diff", "").split("\n") if l.startswith("+") and not l.startswith("+++"))
            bound = max(n_before, n_after, 1)
            for ch in cs.get("changes", []):
                ln = ch.get("lineNumber")
                if not isinstance(ln, int) or ln < 1 or ln > bound:
                    problems.append(("line-number-outside-file", {"codemod": cid, "path": p, "lineNumber": ln, "lines": bound}))
                    break
        failed_rel = {f[len("<S>/T/"):] if f.startswith("<S>/T/") else f for f in failed}
        both = failed_rel & changed
        if both:
            problems.append(("failed-and-changed", {"codemod": cid, "files": sorted(both)[:5]}))
        is_sast = bool(cid) and (cid.split(":")[0] in ("sonar", "semgrep", "defectdojo", "codeql")
                                 or cid == "verif:python/sast-regex-http" or bool(sast_ids and cid in sast_ids))
        if is_sast:
            dt = res.get("detectionTool")
            if not dt or not dt.get("name"):
                problems.append(("sast-without-detection-tool", {"codemod": cid}))
            elif TOOL_OF_ORIGIN.get(cid.split(":")[0]) not in (None, dt.get("name")):
                # the tool named is the one the codemod id belongs to (`semgrep:...` -> Semgrep)
                problems.append(("sast-wrong-detection-tool", {"codemod": cid, "tool": dt.get("name")}))
            for cs in res.get("changeset", []):
                code_changes = [ch for ch in cs.get("changes", []) if not ch.get("packageActions")]
                if code_changes and not any(ch.get("findings") for ch in code_changes):
                    # (dependency-manifest changes carry package actions instead of findings; a codemod may emit several
                    # change entries for one reported site, so the claim is per changeset, not per entry)
                    problems.append(("sast-changeset-without-finding", {"codemod": cid, "path": cs.get("path")}))
                for ch in cs.get("changes", []):
                    for f in ch.get("findings") or []:
                        if not f.get("id") or not (f.get("rule") or {}).get("id") or not (f.get("rule") or {}).get("name"):
                            problems.append(("finding-without-identifiers", {"codemod": cid}))
            for uf in res.get("unfixedFindings") or []:
                up = uf.get("path", "")
                if not (uf.get("rule") or {}).get("id") or not uf.get("id"):
                    problems.append(("finding-without-identifiers", {"codemod": cid, "unfixed": True}))
                # an unfixed finding names the project file it was reported for (the file may have vanished meanwhile)
                if os.path.isabs(up) or up.startswith("..") or "<S>" in up or (up not in world_files and up not in after_tree):
                    problems.append(("unfixed-finding-path", {"codemod": cid, "path": up}))
                    break
    return problems
